#!/bin/bash
# tools_fixcommit.sh <message-file> <path>... : runs the pinned suite on /repo's working tree and commits
# the given paths only if all 168 tests pass (regenerated files under tests/ are restored first and after).
msgf=$1; shift
cd /repo || exit 2
out=$(cargo nextest run --workspace --no-fail-fast --test-threads 8 --offline 2>&1)
git checkout -- tests
if echo "$out" | grep -q "168 tests run: 168 passed"; then
  git add "$@" && git commit -q -F "$msgf" && git log --oneline | head -1
else
  echo "SUITE NOT GREEN - nothing committed"; echo "$out" | grep -E "Summary|FAIL \[|^error" | head -8; exit 1
fi
