#!/usr/bin/env python3
"""tools_seedprompt.py <prop> <tag> [hint] : sets up /tmp/seed/<prop>-<tag>/ (scratch worktree of
/repo HEAD + prompt.txt) for an independent sub-agent that gets the property text only."""
import json, os, subprocess, sys
props = {json.loads(l)['id']: json.loads(l) for l in open(os.path.join(os.path.dirname(os.path.abspath(__file__)), 'properties.jsonl'))}

def prompt(pid, tag, hint=""):
    p = props[pid]
    d = f"/tmp/seed/{pid}-{tag}"
    h = ("\nHint (another seeded change for this property already exists elsewhere, so prefer a different area): " + hint + "\n") if hint else ""
    return f"""You are helping test a verification framework by producing a realistic, subtle bug ("seeded change") in the open-source Rust project rustemo (an LR/GLR parser generator: crates `rustemo` (runtime) and `rustemo-compiler` (grammar front-end, LR table construction, code generator, `rcomp` CLI)).

You have your own scratch git worktree of the project at {d}/wt . Work ONLY inside {d}/ (the worktree and {d}/out). Do NOT read or write anything under /verif or /repo, and do not touch other directories under /tmp/seed. The sandbox has no network; use `--offline` with cargo. Build output should stay inside the worktree's own target dir ({d}/wt/target).

The property your change must BREAK:

  Title: {p['title']}
  Statement: {p['statement']}
  Quantified over: {p['quantifier']['text']}
  Code it is anchored in: {', '.join(p['anchors']['files'])}
{h}
Task: make ONE small source change (a few lines, in the non-test source of rustemo / rustemo-compiler; not in tests, docs, examples or generated files such as rustemo-compiler/src/lang/rustemo.rs) such that:
 1. the whole workspace still compiles, and the existing test suite still passes completely:
      cd {d}/wt && cargo nextest run --workspace --no-fail-fast --test-threads 8 --offline
    (168 tests; if nextest is unavailable use `cargo test --workspace --no-fail-fast --offline`). Run the suite on the unmodified tree once first so build products exist, then with your change. Note the test-suite regenerates parsers through build.rs so a change to the compiler is exercised by it (it may leave regenerated files under tests/ modified: do not include those in your patch).
 2. the property above is violated for SOME grammar/input/configuration/history — but only under specific circumstances: a particular grammar shape, an unusual input, a particular multi-step sequence of operations, a particular settings combination, or two cooperating sites that each look fine alone. It must NOT be something that ordinary use exposes at once (e.g. do not break every parse). Think like a plausible programmer mistake or over-eager "optimisation"/refactoring: an off-by-one, a wrong comparison, a dropped update in a rarely taken branch, a condition that is too weak/strong.
 3. you have a demonstration: a small self-contained test or program (for example a new test file added under tests/ of the worktree, or a tiny cargo project under {d}/out/demo using path dependencies on the worktree crates, or a shell script driving `rcomp` plus a generated parser) that FAILS with your change and PASSES without it. Verify both directions yourself.

Deliverables, written into {d}/out/ :
  - patch.diff : `git diff` of the source change only (must apply with `git apply` on the original worktree HEAD; do not include the demonstration in it).
  - demo/ (or demo.sh / demo test file) : the demonstration, with a README or header comment saying exactly how to run it and what output to expect with and without the patch.
  - notes.md : which file/function you changed and why it breaks the property, what specific circumstance is needed for the bug to manifest, and the exact commands you ran with their (abridged) results: test suite green with the patch; demo fails with the patch; demo passes without it.

Constraints: the change must compile without new warnings-as-errors; keep it minimal; do not weaken or edit existing tests or their expected-output files; do not add dependencies. When finished leave the worktree with the patch APPLIED (uncommitted) so it can be inspected. Be efficient: a full nextest run takes roughly 1-2 minutes after the first build. Your final answer should be a short summary (what was changed, what it needs to manifest, and confirmation of the three checks).
"""

if __name__ == "__main__":
    pid, tag = sys.argv[1], sys.argv[2]
    hint = sys.argv[3] if len(sys.argv) > 3 else ""
    d = f"/tmp/seed/{pid}-{tag}"
    os.makedirs(d + "/out", exist_ok=True)
    subprocess.check_call(["git", "-C", "/repo", "worktree", "add", "--detach", d + "/wt", "HEAD"], stdout=subprocess.DEVNULL, stderr=subprocess.DEVNULL)
    open(d + "/prompt.txt", "w").write(prompt(pid, tag, hint))
    print(d)
