//! vharness: drives the *real* rustemo compiler (through the cfg(rustemo_verif)
//! dump hook) and the *real* rustemo runtimes (LRParser, GlrParser,
//! StringLexer) from a table that is only known at run time, and records what
//! they do as JSON for the TLA+ trace specifications.
pub mod dynparser;

use rustemo_compiler::{ParserAlgo, Settings, TableType};
use serde_json::Value;

/// Settings as they appear in a case record.
#[derive(Clone, Debug)]
pub struct Cfg {
    pub algo: String, // "lr" | "glr"
    pub tt: String,   // "lalr" | "pager" | "rn"
    pub ps: bool,
    pub pse: bool,
    pub ms: bool,
    pub lm: bool,
    pub go: bool,
    pub partial: bool,
    pub skip_ws: bool,
    pub raw: bool,
    /// LR: call parser_algo(LR) explicitly after the other setters, as rcomp does
    pub lr_last: bool,
}

impl Cfg {
    pub fn from_json(v: &Value) -> Cfg {
        let b = |k: &str, d: bool| v.get(k).and_then(|x| x.as_bool()).unwrap_or(d);
        let s = |k: &str, d: &str| {
            v.get(k)
                .and_then(|x| x.as_str())
                .unwrap_or(d)
                .to_string()
        };
        let algo = s("algo", "lr");
        let glr = algo == "glr";
        Cfg {
            tt: s("tt", if glr { "rn" } else { "pager" }),
            ps: b("ps", false),
            pse: b("pse", !glr),
            ms: b("ms", true),
            lm: b("lm", true),
            go: b("go", !glr),
            partial: b("partial", false),
            skip_ws: b("skip_ws", true),
            raw: b("raw", false),
            lr_last: b("lr_last", false),
            algo,
        }
    }

    pub fn to_json(&self) -> Value {
        serde_json::json!({"algo": self.algo, "tt": self.tt, "ps": self.ps, "pse": self.pse,
            "ms": self.ms, "lm": self.lm, "go": self.go, "partial": self.partial,
            "skip_ws": self.skip_ws, "raw": self.raw})
    }

    /// Builds the compiler `Settings` through the public builder API in the
    /// order a user would (algorithm first, then overrides).
    pub fn settings(&self) -> Settings {
        let mut s = Settings::new();
        if self.algo == "glr" {
            s = s.parser_algo(ParserAlgo::GLR);
        }
        s = s.table_type(match self.tt.as_str() {
            "lalr" => TableType::LALR,
            "pager" => TableType::LALR_PAGER,
            _ => TableType::LALR_RN,
        });
        s = s
            .prefer_shifts(self.ps)
            .prefer_shifts_over_empty(self.pse)
            .lexical_disamb_most_specific(self.ms)
            .lexical_disamb_longest_match(self.lm)
            .partial_parse(self.partial)
            .skip_ws(self.skip_ws);
        if self.algo == "glr" {
            s = s.lexical_disamb_grammar_order(self.go);
        }
        if self.algo == "lr" && self.lr_last {
            // documented: choosing LR changes nothing else
            s = s.parser_algo(ParserAlgo::LR);
        }
        s
    }
}

/// Runs `f`, turning a panic into `Err(message)`.
pub fn panic_message(e: Box<dyn std::any::Any + Send>) -> String {
    if let Some(s) = e.downcast_ref::<&str>() {
        s.to_string()
    } else if let Some(s) = e.downcast_ref::<String>() {
        s.clone()
    } else {
        "panic".to_string()
    }
}

pub fn catch<T>(f: impl FnOnce() -> T + std::panic::UnwindSafe) -> Result<T, String> {
    std::panic::catch_unwind(f).map_err(panic_message)
}

/// Coarse classification of a compiler error, used by C16.
pub fn classify_error(e: &rustemo_compiler::Error) -> (&'static str, String) {
    let msg = e.to_locfile_str();
    let class = match e {
        rustemo_compiler::Error::RustemoError(_) => {
            if msg.contains("Expected") {
                "syntax"
            } else if msg.contains("not defined") {
                "undef_terminal"
            } else if msg.contains("Unexisting symbol") {
                "undef_symbol"
            } else if msg.contains("Infinite recursion") {
                "recursion"
            } else if msg.contains("valid Rust identifier") {
                "identifier"
            } else if msg.contains("Priority") {
                "priority"
            } else {
                "rustemo_other"
            }
        }
        rustemo_compiler::Error::Error(m) => {
            if m.contains("First set empty") {
                "recursion"
            } else if m.contains("Recognizer not defined") {
                "recognizer"
            } else if m.contains("conflicts") {
                "conflicts"
            } else {
                "other"
            }
        }
        rustemo_compiler::Error::IOError(_) => "io",
        rustemo_compiler::Error::SynError(_) => "syn",
    };
    (class, msg)
}
