//! A `ParserDefinition` built at run time from a dumped table, plus observers
//! that record what the real `LRParser` / `GlrParser` do with it.
use std::cell::{Cell, RefCell};

use rustemo::{
    Action, Builder, Context, Forest, GlrParser, GssHead, LRBuilder, LRContext, LRParser,
    Parser, ParserDefinition, Position, SourceSpan, State, StringLexer, Token, TokenRecognizer,
    TreeBuilder, TreeNode,
};
use serde_json::{json, Value};

pub const MAXT: usize = 64;

thread_local! {
    static LAYOUT: Cell<Option<usize>> = const { Cell::new(None) };
    static LONGEST: Cell<bool> = const { Cell::new(true) };
    static GORDER: Cell<bool> = const { Cell::new(true) };
    static PROD_NT: RefCell<Vec<usize>> = const { RefCell::new(Vec::new()) };
    // callbacks of the parse in progress (cleared when a parse starts: the parser keeps
    // its builder, and with it anything the builder holds, across parse() calls)
    static EVENTS: RefCell<Vec<Value>> = const { RefCell::new(Vec::new()) };
}

#[derive(Copy, Clone, Debug, Default, PartialEq, Eq, PartialOrd, Ord)]
pub struct St(pub usize);
impl State for St {
    fn default_layout() -> Option<Self> {
        LAYOUT.with(|l| l.get()).map(St)
    }
}
impl From<St> for usize {
    fn from(s: St) -> usize {
        s.0
    }
}

#[derive(Copy, Clone, Debug, Default, PartialEq, Eq, PartialOrd, Ord)]
pub struct Tk(pub usize);
impl From<Tk> for usize {
    fn from(s: Tk) -> usize {
        s.0
    }
}

#[derive(Copy, Clone, Debug, PartialEq, Eq)]
pub struct Pk(pub usize);
#[derive(Copy, Clone, Debug, PartialEq, Eq)]
pub struct Nk(pub usize);
impl From<Pk> for Nk {
    fn from(p: Pk) -> Nk {
        Nk(PROD_NT.with(|m| m.borrow()[p.0]))
    }
}

pub struct Def {
    pub actions: Vec<Vec<Vec<Action<St, Pk>>>>,
    pub gotos: Vec<Vec<Option<usize>>>,
    pub expected: Vec<Vec<(Tk, bool)>>,
    pub nterm: usize,
    pub prod_nt: Vec<usize>,
    pub layout_state: Option<usize>,
    pub recs: Vec<(String, String)>, // (kind, text) per terminal
}

impl ParserDefinition<St, Pk, Tk, Nk> for Def {
    // Mirrors both generated layouts: an empty cell yields an empty vector, a
    // missing goto panics.
    fn actions(&self, state: St, token: Tk) -> Vec<Action<St, Pk>> {
        self.actions[state.0][token.0].clone()
    }
    fn goto(&self, state: St, nonterm: Nk) -> St {
        St(self.gotos[state.0][nonterm.0].expect("Invalid GOTO entry!"))
    }
    fn expected_token_kinds(&self, state: St) -> Vec<(Tk, bool)> {
        self.expected[state.0].clone()
    }
    fn longest_match() -> bool {
        LONGEST.with(|x| x.get())
    }
    fn grammar_order() -> bool {
        GORDER.with(|x| x.get())
    }
}

impl Def {
    /// Builds the definition from the JSON the dump hook produced.
    pub fn from_dump(t: &Value) -> Def {
        let nterm = t["nterm"].as_u64().unwrap() as usize;
        let mut actions = vec![];
        let mut gotos = vec![];
        let mut expected = vec![];
        for st in t["states"].as_array().unwrap() {
            actions.push(
                st["actions"]
                    .as_array()
                    .unwrap()
                    .iter()
                    .map(|cell| {
                        cell.as_array()
                            .unwrap()
                            .iter()
                            .map(|a| match a["k"].as_str().unwrap() {
                                "s" => Action::Shift(St(a["s"].as_u64().unwrap() as usize)),
                                "r" => Action::Reduce(
                                    Pk(a["p"].as_u64().unwrap() as usize),
                                    a["n"].as_u64().unwrap() as usize,
                                ),
                                _ => Action::Accept,
                            })
                            .collect()
                    })
                    .collect(),
            );
            gotos.push(
                st["gotos"]
                    .as_array()
                    .unwrap()
                    .iter()
                    .map(|g| {
                        let g = g.as_i64().unwrap();
                        if g < 0 {
                            None
                        } else {
                            Some(g as usize)
                        }
                    })
                    .collect(),
            );
            expected.push(
                st["sorted"]
                    .as_array()
                    .unwrap()
                    .iter()
                    .map(|p| {
                        (
                            Tk(p[0].as_u64().unwrap() as usize),
                            p[1].as_u64().unwrap() == 1,
                        )
                    })
                    .collect(),
            );
        }
        let prod_nt = t["prods"]
            .as_array()
            .unwrap()
            .iter()
            .map(|p| p["lhs"].as_u64().unwrap() as usize - nterm)
            .collect();
        let ls = t["layout_state"].as_i64().unwrap();
        let recs = t["terms"]
            .as_array()
            .unwrap()
            .iter()
            .map(|x| {
                (
                    x["rk"].as_str().unwrap().to_string(),
                    x["rs"].as_str().unwrap().to_string(),
                )
            })
            .collect();
        Def {
            actions,
            gotos,
            expected,
            nterm,
            prod_nt,
            layout_state: if ls < 0 { None } else { Some(ls as usize) },
            recs,
        }
    }

    /// Installs the thread-local parts of the definition (layout state, lexical
    /// strategy flags, production -> nonterminal map).
    pub fn install(&self, lm: bool, go: bool) {
        LAYOUT.with(|l| l.set(self.layout_state));
        LONGEST.with(|x| x.set(lm));
        GORDER.with(|x| x.set(go));
        PROD_NT.with(|m| *m.borrow_mut() = self.prod_nt.clone());
    }
}

/// Recognizers with the semantics of the generated lexer definition.
pub enum Rec {
    Stop,
    Str(&'static str),
    Re(rustemo::regex::Regex),
    Never,
}

impl<'i> TokenRecognizer<'i> for Rec {
    fn recognize(&self, input: &'i str) -> Option<&'i str> {
        match self {
            Rec::Stop => {
                if input.is_empty() {
                    Some("")
                } else {
                    None
                }
            }
            Rec::Str(s) => {
                if input.starts_with(s) {
                    Some(&input[..s.len()])
                } else {
                    None
                }
            }
            Rec::Re(r) => r.find(input).map(|m| m.as_str()).filter(|s| !s.is_empty()),
            Rec::Never => None,
        }
    }
}

pub fn recognizers(def: &Def) -> Result<&'static [Rec; MAXT], String> {
    if def.recs.len() > MAXT {
        return Err(format!("more than {MAXT} terminals"));
    }
    let mut v: Vec<Rec> = vec![];
    for (i, (k, s)) in def.recs.iter().enumerate() {
        v.push(if i == 0 {
            Rec::Stop
        } else {
            match k.as_str() {
                "str" => Rec::Str(Box::leak(s.clone().into_boxed_str())),
                "re" => Rec::Re(
                    rustemo::regex::Regex::new(&format!("^(?:{s})"))
                        .map_err(|e| format!("regex: {e}"))?,
                ),
                _ => Rec::Never,
            }
        });
    }
    while v.len() < MAXT {
        v.push(Rec::Never);
    }
    let arr: Box<[Rec; MAXT]> = match v.into_boxed_slice().try_into() {
        Ok(a) => a,
        Err(_) => unreachable!(),
    };
    Ok(Box::leak(arr))
}

/// A user-style lexer that IGNORES the expected token kinds: it skips white space and
/// returns the first terminal (in grammar order) that matches at the position, whatever
/// the parser expects there (C15: must surface as an error result, never a panic).
pub struct AnyLexer<C> {
    recs: &'static [Rec; MAXT],
    n: usize,
    phantom: std::marker::PhantomData<C>,
}

impl<C> AnyLexer<C> {
    pub fn new(recs: &'static [Rec; MAXT], n: usize) -> Self {
        AnyLexer {
            recs,
            n,
            phantom: std::marker::PhantomData,
        }
    }
}

impl<'i, C: Context<'i, str, St, Tk>> rustemo::Lexer<'i, C, St, Tk> for AnyLexer<C> {
    type Input = str;
    fn next_tokens(
        &self,
        context: &mut C,
        input: &'i str,
        _expected: Vec<(Tk, bool)>,
    ) -> Box<dyn Iterator<Item = Token<'i, str, Tk>> + 'i> {
        use rustemo::Input;
        let rest = &input[context.position().pos..];
        let skipped: usize = rest
            .chars()
            .take_while(|c| c.is_whitespace())
            .map(|c| c.len_utf8())
            .sum();
        if skipped > 0 {
            let ws = &rest[..skipped];
            context.set_layout_ahead(Some(ws));
            context.set_position(ws.position_after(context.position()));
        } else {
            context.set_layout_ahead(None);
        }
        let pos = context.position();
        let rest = &input[pos.pos..];
        let mut out = vec![];
        // terminals first, STOP (index 0) last
        for t in (1..self.n).chain(std::iter::once(0)) {
            if let Some(v) = self.recs[t].recognize(rest) {
                out.push(Token {
                    kind: Tk(t),
                    value: v,
                    span: v.span_from(pos),
                });
                break;
            }
        }
        Box::new(out.into_iter())
    }
}

fn pos_json(p: Position) -> (i64, i64, i64) {
    (
        p.pos as i64,
        p.line_col.map(|l| l.line as i64).unwrap_or(-1),
        p.line_col.map(|l| l.column as i64).unwrap_or(-1),
    )
}

fn bytes(s: &str) -> Value {
    Value::Array(s.bytes().map(|b| json!(b)).collect())
}

fn span_fields(o: &mut serde_json::Map<String, Value>, span: SourceSpan) {
    let (s, sl, sc) = pos_json(span.start);
    let (e, el, ec) = pos_json(span.end);
    o.insert("s".into(), json!(s));
    o.insert("e".into(), json!(e));
    o.insert("sl".into(), json!(sl));
    o.insert("sc".into(), json!(sc));
    o.insert("el".into(), json!(el));
    o.insert("ec".into(), json!(ec));
}

fn layout_fields(o: &mut serde_json::Map<String, Value>, layout: Option<&str>) {
    match layout {
        Some(l) => {
            o.insert("hl".into(), json!(true));
            o.insert("lay".into(), bytes(l));
        }
        None => {
            o.insert("hl".into(), json!(false));
            o.insert("lay".into(), json!([]));
        }
    }
}

/// Every event / tree node has the same set of fields so that the TLA+ side can
/// access them uniformly.
fn event(k: &str, t: i64, p: i64, n: i64, span: SourceSpan, v: &str, layout: Option<&str>) -> Value {
    let mut o = serde_json::Map::new();
    o.insert("k".into(), json!(k));
    o.insert("t".into(), json!(t));
    o.insert("p".into(), json!(p));
    o.insert("n".into(), json!(n));
    span_fields(&mut o, span);
    o.insert("v".into(), bytes(v));
    layout_fields(&mut o, layout);
    Value::Object(o)
}

/// Observing builder: forwards to the real `TreeBuilder` and logs every call.
pub struct Obs<'i> {
    inner: TreeBuilder<'i, str, Pk, Tk>,
}

pub fn clear_events() {
    EVENTS.with(|e| e.borrow_mut().clear());
}

impl<'i> Obs<'i> {
    pub fn new() -> Self {
        Obs {
            inner: TreeBuilder::new(),
        }
    }
}

impl<'i> Builder for Obs<'i> {
    type Output = (TreeNode<'i, str, Pk, Tk>, Vec<Value>);
    fn get_result(&mut self) -> Self::Output {
        (self.inner.get_result(), EVENTS.with(|e| std::mem::take(&mut *e.borrow_mut())))
    }
}

type LCtx<'i> = LRContext<'i, str, St, Tk>;

impl<'i> LRBuilder<'i, str, LCtx<'i>, St, Pk, Tk> for Obs<'i> {
    fn shift_action(&mut self, context: &LCtx<'i>, token: Token<'i, str, Tk>) {
        let mut ev = event(
            "s",
            token.kind.0 as i64,
            -1,
            -1,
            token.span,
            token.value,
            context.layout_ahead(),
        );
        // context span / position at the time of the call
        let cs = context.span();
        ev["cs"] = json!(cs.start.pos);
        ev["ce"] = json!(cs.end.pos);
        ev["cp"] = json!(context.position().pos);
        EVENTS.with(|e| e.borrow_mut().push(ev));
        <TreeBuilder<'i, str, Pk, Tk> as LRBuilder<'i, str, LCtx<'i>, St, Pk, Tk>>::shift_action(
            &mut self.inner,
            context,
            token,
        );
    }
    fn reduce_action(&mut self, context: &LCtx<'i>, prod: Pk, prod_len: usize) {
        let mut ev = event(
            "r",
            -1,
            prod.0 as i64,
            prod_len as i64,
            context.span(),
            "",
            None,
        );
        ev["cs"] = json!(context.span().start.pos);
        ev["ce"] = json!(context.span().end.pos);
        ev["cp"] = json!(context.position().pos);
        EVENTS.with(|e| e.borrow_mut().push(ev));
        <TreeBuilder<'i, str, Pk, Tk> as LRBuilder<'i, str, LCtx<'i>, St, Pk, Tk>>::reduce_action(
            &mut self.inner,
            context,
            prod,
            prod_len,
        );
    }
}

pub fn tree_json(t: &TreeNode<'_, str, Pk, Tk>) -> Value {
    match t {
        TreeNode::TermNode { token, layout } => {
            let mut v = event("t", token.kind.0 as i64, -1, -1, token.span, token.value, *layout);
            v["c"] = json!([]);
            v
        }
        TreeNode::NonTermNode {
            prod,
            span,
            children,
            layout,
        } => {
            let mut v = event("n", -1, prod.0 as i64, children.len() as i64, *span, "", *layout);
            v["c"] = Value::Array(children.iter().map(tree_json).collect());
            v
        }
    }
}

pub fn error_json(e: &rustemo::Error) -> Value {
    match e {
        rustemo::Error::ParseError(pe) => {
            let (o, l, c) = pe.span.map(|s| pos_json(s.start)).unwrap_or((-1, -1, -1));
            let (oe, _, _) = pe.span.map(|s| pos_json(s.end)).unwrap_or((-1, -1, -1));
            let nexp = if pe.message.starts_with("Expected one of ") {
                pe.message.matches(", ").count() as i64 + 1
            } else if pe.message.starts_with("Expected ") {
                1
            } else {
                0
            };
            json!({"k":"err","o":o,"oe":oe,"l":l,"c":c,"nexp":nexp,"msg":pe.message})
        }
        rustemo::Error::IOError(e) => {
            json!({"k":"err","o":-1,"oe":-1,"l":-1,"c":-1,"nexp":0,"msg":format!("io: {e}")})
        }
    }
}

fn ok_json() -> Value {
    json!({"k":"ok","o":-1,"oe":-1,"l":-1,"c":-1,"nexp":0,"msg":""})
}

pub fn none_json() -> Value {
    json!({"k":"none","o":-1,"oe":-1,"l":-1,"c":-1,"nexp":0,"msg":""})
}

pub fn panic_json(msg: &str) -> Value {
    json!({"k":"panic","o":-1,"oe":-1,"l":-1,"c":-1,"nexp":0,"msg":msg})
}

pub fn empty_tree() -> Value {
    let mut v = event("x", -1, -1, -1, SourceSpan::default(), "", None);
    v["c"] = json!([]);
    v
}

/// Runs the real `LRParser` with the real `StringLexer` over the dynamic
/// definition. Returns (result, events, tree).
pub fn run_lr_anylexer(
    def: &'static Def,
    recs: &'static [Rec; MAXT],
    input: &'static str,
    partial: bool,
) -> (Value, Vec<Value>, Value) {
    let lexer: AnyLexer<LCtx<'static>> = AnyLexer::new(recs, def.nterm);
    let parser: LRParser<'static, LCtx<'static>, St, Pk, Tk, Nk, Def, _, Obs<'static>, str> =
        LRParser::new(def, St(0), partial, false, lexer, Obs::new());
    clear_events();
    match parser.parse(input) {
        Ok((tree, events)) => (ok_json(), events, tree_json(&tree)),
        Err(e) => (error_json(&e), vec![], empty_tree()),
    }
}

pub fn run_glr_anylexer(
    def: &'static Def,
    recs: &'static [Rec; MAXT],
    input: &'static str,
    partial: bool,
    max_trees: usize,
) -> (Value, Value) {
    let lexer: AnyLexer<GCtx<'static>> = AnyLexer::new(recs, def.nterm);
    let parser: GlrParser<'static, St, _, Pk, Tk, Nk, Def, str, ()> =
        GlrParser::new(def, partial, false, lexer);
    match parser.parse(input) {
        Ok(forest) => (ok_json(), forest_json(&forest, max_trees)),
        Err(e) => (error_json(&e), no_forest()),
    }
}

pub fn run_lr(
    def: &'static Def,
    recs: &'static [Rec; MAXT],
    input: &'static str,
    partial: bool,
    skip_ws: bool,
) -> (Value, Vec<Value>, Value) {
    let has_layout = def.layout_state.is_some();
    let lexer: StringLexer<LCtx<'static>, St, Tk, Rec, MAXT> =
        StringLexer::new(skip_ws && !has_layout, recs);
    let parser: LRParser<'static, LCtx<'static>, St, Pk, Tk, Nk, Def, _, Obs<'static>, str> =
        LRParser::new(def, St(0), partial, has_layout, lexer, Obs::new());
    clear_events();
    match parser.parse(input) {
        Ok((tree, events)) => (ok_json(), events, tree_json(&tree)),
        Err(e) => (error_json(&e), vec![], empty_tree()),
    }
}

/// One LR parser instance used for a whole sequence of inputs (a user keeps the parser
/// around and calls parse() repeatedly, also after a failed parse).
pub struct LrSession {
    parser: LRParser<
        'static,
        LCtx<'static>,
        St,
        Pk,
        Tk,
        Nk,
        Def,
        StringLexer<LCtx<'static>, St, Tk, Rec, MAXT>,
        Obs<'static>,
        str,
    >,
}

impl LrSession {
    pub fn new(def: &'static Def, recs: &'static [Rec; MAXT], partial: bool, skip_ws: bool) -> Self {
        let has_layout = def.layout_state.is_some();
        let lexer = StringLexer::new(skip_ws && !has_layout, recs);
        LrSession {
            parser: LRParser::new(def, St(0), partial, has_layout, lexer, Obs::new()),
        }
    }
    pub fn parse(&self, input: &'static str) -> (Value, Vec<Value>, Value) {
        clear_events();
        match self.parser.parse(input) {
            Ok((tree, events)) => (ok_json(), events, tree_json(&tree)),
            Err(e) => (error_json(&e), vec![], empty_tree()),
        }
    }
}

type GCtx<'i> = GssHead<'i, str, St, Tk>;

/// Generic-tree builder usable with `Tree::build` (context = GssHead).
pub struct GObs<'i> {
    inner: TreeBuilder<'i, str, Pk, Tk>,
}
impl<'i> Builder for GObs<'i> {
    type Output = TreeNode<'i, str, Pk, Tk>;
    fn get_result(&mut self) -> Self::Output {
        self.inner.get_result()
    }
}
impl<'i> LRBuilder<'i, str, GCtx<'i>, St, Pk, Tk> for GObs<'i> {
    fn shift_action(&mut self, context: &GCtx<'i>, token: Token<'i, str, Tk>) {
        <TreeBuilder<'i, str, Pk, Tk> as LRBuilder<'i, str, GCtx<'i>, St, Pk, Tk>>::shift_action(
            &mut self.inner,
            context,
            token,
        );
    }
    fn reduce_action(&mut self, context: &GCtx<'i>, prod: Pk, prod_len: usize) {
        <TreeBuilder<'i, str, Pk, Tk> as LRBuilder<'i, str, GCtx<'i>, St, Pk, Tk>>::reduce_action(
            &mut self.inner,
            context,
            prod,
            prod_len,
        );
    }
}

/// Runs the real `GlrParser`. Returns (result, forest record).
pub fn run_glr(
    def: &'static Def,
    recs: &'static [Rec; MAXT],
    input: &'static str,
    partial: bool,
    skip_ws: bool,
    max_trees: usize,
) -> (Value, Value) {
    let has_layout = def.layout_state.is_some();
    let lexer: StringLexer<GCtx<'static>, St, Tk, Rec, MAXT> =
        StringLexer::new(skip_ws && !has_layout, recs);
    let parser: GlrParser<'static, St, _, Pk, Tk, Nk, Def, str, ()> =
        GlrParser::new(def, partial, has_layout, lexer);
    match parser.parse(input) {
        Ok(forest) => (ok_json(), forest_json(&forest, max_trees)),
        Err(e) => (error_json(&e), no_forest()),
    }
}

/// One GLR parser instance used for a whole sequence of inputs.
pub struct GlrSession {
    parser: GlrParser<'static, St, StringLexer<GCtx<'static>, St, Tk, Rec, MAXT>, Pk, Tk, Nk, Def, str, ()>,
    max_trees: usize,
}

impl GlrSession {
    pub fn new(def: &'static Def, recs: &'static [Rec; MAXT], partial: bool, skip_ws: bool, max_trees: usize) -> Self {
        let has_layout = def.layout_state.is_some();
        let lexer = StringLexer::new(skip_ws && !has_layout, recs);
        GlrSession {
            parser: GlrParser::new(def, partial, has_layout, lexer),
            max_trees,
        }
    }
    pub fn parse(&self, input: &'static str) -> (Value, Value) {
        match self.parser.parse(input) {
            Ok(forest) => (ok_json(), forest_json(&forest, self.max_trees)),
            Err(e) => (error_json(&e), no_forest()),
        }
    }
}

pub fn no_forest() -> Value {
    json!({"n":0,"trees":[],"iter":0,"iter_same":true,"oob":[false,false],"amb":0,"complete":true})
}

fn forest_json(forest: &Forest<'static, str, Pk, Tk>, max_trees: usize) -> Value {
    let n = forest.solutions();
    // extracting a tree by index from a forest of millions of solutions is slow (each
    // step recounts the solutions below a node): look at a few trees only there, so
    // that the time limit of a case measures the parser and not this projection
    let max_trees = if n > 5000 { max_trees.min(3) } else { max_trees };
    let mut trees = vec![];
    for i in 0..n.min(max_trees) {
        match forest.get_tree(i) {
            Some(t) => {
                let mut b = GObs {
                    inner: TreeBuilder::new(),
                };
                let tn = t.build::<_, St>(&mut b);
                trees.push(tree_json(&tn));
            }
            None => trees.push(empty_tree()),
        }
    }
    // iteration must yield exactly as many trees as indexing
    let iter_count = if n <= max_trees {
        forest.iter().count()
    } else {
        forest.iter().take(max_trees + 1).count()
    };
    // the i-th iterated tree equals the i-th indexed tree
    let mut iter_same = true;
    for (i, t) in forest.iter().take(n.min(max_trees)).enumerate() {
        let mut b = GObs {
            inner: TreeBuilder::new(),
        };
        let tn = t.build::<_, St>(&mut b);
        if tree_json(&tn) != trees[i] {
            iter_same = false;
        }
    }
    let oob = [forest.get_tree(n).is_some(), forest.get_tree(n + 1).is_some()];
    json!({"n": n, "trees": trees, "iter": iter_count, "iter_same": iter_same,
           "oob": oob, "amb": forest.ambiguities(), "complete": n <= max_trees})
}
