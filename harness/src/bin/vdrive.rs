//! vdrive run <cases.ndjson> <outprefix> [--skip N] [--timeout-ms T]
//!
//! For every case: dump the table the real compiler builds (hook), then run the
//! real LR / GLR runtime on every input and record what happened.
//! Outputs: <outprefix>.dumps.ndjson, <outprefix>.errs.ndjson,
//! <outprefix>.traces.ndjson. Exit status 3 = a parse did not finish within
//! the timeout (recorded as "hang"); restart with --skip.
use std::io::Write;
use std::sync::mpsc;
use std::time::Duration;

use serde_json::{json, Value};
use vharness::dynparser::{self, Def};
use vharness::{catch, classify_error, Cfg};

fn main() {
    let args: Vec<String> = std::env::args().collect();
    if args.len() < 4 || args[1] != "run" {
        eprintln!("usage: vdrive run <cases.ndjson> <outprefix> [--skip N] [--timeout-ms T]");
        std::process::exit(2);
    }
    let mut skip = 0usize;
    let mut timeout_ms = 10_000u64;
    let mut i = 4;
    while i < args.len() {
        match args[i].as_str() {
            "--skip" => {
                skip = args[i + 1].parse().unwrap();
                i += 2
            }
            "--timeout-ms" => {
                timeout_ms = args[i + 1].parse().unwrap();
                i += 2
            }
            _ => i += 1,
        }
    }
    // keep panics quiet; they are recorded as data
    std::panic::set_hook(Box::new(|_| {}));
    let cases = std::fs::read_to_string(&args[2]).expect("cases file");
    let open = |suffix: &str| {
        std::fs::OpenOptions::new()
            .create(true)
            .append(true)
            .open(format!("{}.{}.ndjson", args[3], suffix))
            .unwrap()
    };
    let mut dumps = open("dumps");
    let mut errs = open("errs");
    let mut traces = open("traces");
    // number of dump lines already present (when restarted with --skip)
    let mut ndumps = std::fs::read_to_string(format!("{}.dumps.ndjson", args[3]))
        .map(|s| s.lines().count())
        .unwrap_or(0);

    for (ci, line) in cases.lines().enumerate() {
        if ci < skip || line.trim().is_empty() {
            continue;
        }
        let case: Value = serde_json::from_str(line).expect("case json");
        let id = case["id"].clone();
        let grammar = case["grammar"].as_str().unwrap().to_string();
        let cfg = Cfg::from_json(&case["cfg"]);
        let settings = cfg.settings();
        let raw = cfg.raw;
        let g2 = grammar.clone();
        let dumped = catch(move || {
            if raw {
                rustemo_compiler::verif::table_json_raw(&g2, &settings)
            } else {
                rustemo_compiler::verif::table_json(&g2, &settings)
            }
        });
        let table: Value = match dumped {
            Ok(Ok(j)) => serde_json::from_str(j.as_str()).expect("hook json"),
            Ok(Err(e)) => {
                let (class, msg) = classify_error(&e);
                writeln!(
                    errs,
                    "{}",
                    json!({"id": id, "cfg": cfg.to_json(), "class": class, "msg": msg, "grammar": grammar, "ci": ci})
                )
                .unwrap();
                continue;
            }
            Err(p) => {
                writeln!(
                    errs,
                    "{}",
                    json!({"id": id, "cfg": cfg.to_json(), "class": "panic", "msg": p, "grammar": grammar, "ci": ci})
                )
                .unwrap();
                continue;
            }
        };
        let mut rec = serde_json::Map::new();
        rec.insert("id".into(), id.clone());
        rec.insert("cfg".into(), cfg.to_json());
        rec.insert("grammar".into(), json!(grammar));
        if let Some(m) = case.get("meta") {
            rec.insert("meta".into(), m.clone());
        }
        rec.insert("t".into(), table.clone());
        writeln!(dumps, "{}", Value::Object(rec)).unwrap();
        ndumps += 1;
        let gref = ndumps;

        // An LR table with unresolved conflicts is not a parser the compiler would
        // emit (generate_parser refuses it), so it is dumped but never run.
        if cfg.algo == "lr" && table["nconflicts"].as_u64().unwrap_or(0) > 0 {
            continue;
        }
        let inputs = match case.get("inputs").and_then(|x| x.as_array()) {
            Some(a) if !a.is_empty() => a.clone(),
            _ => continue,
        };
        let def: &'static Def = Box::leak(Box::new(Def::from_dump(&table)));
        let recs = match dynparser::recognizers(def) {
            Ok(r) => r,
            Err(e) => {
                eprintln!("case {id}: {e}");
                continue;
            }
        };
        let max_trees = case
            .get("max_trees")
            .and_then(|x| x.as_u64())
            .unwrap_or(200) as usize;
        for inp in inputs {
            let text: &'static str =
                Box::leak(inp["text"].as_str().unwrap().to_string().into_boxed_str());
            let (tx, rx) = mpsc::channel();
            let algo = cfg.algo.clone();
            let partial_in = inp.get("partial").and_then(|x| x.as_bool()).unwrap_or(cfg.partial);
            let (lm, go, partial, skip_ws) = (cfg.lm, cfg.go, partial_in, cfg.skip_ws);
            std::thread::Builder::new()
                .stack_size(256 << 20)
                .spawn(move || {
                    def.install(lm, go);
                    let r = catch(move || {
                        if algo == "glr" {
                            let (res, forest) =
                                dynparser::run_glr(def, recs, text, partial, skip_ws, max_trees);
                            (res, vec![], dynparser::empty_tree(), forest)
                        } else {
                            let (res, ev, tree) =
                                dynparser::run_lr(def, recs, text, partial, skip_ws);
                            (res, ev, tree, dynparser::no_forest())
                        }
                    });
                    let _ = tx.send(r);
                })
                .unwrap();
            let (res, ev, tree, forest, hung) = match rx.recv_timeout(Duration::from_millis(timeout_ms)) {
                Ok(Ok((res, ev, tree, forest))) => (res, ev, tree, forest, false),
                Ok(Err(p)) => (
                    dynparser::panic_json(&p),
                    vec![],
                    dynparser::empty_tree(),
                    dynparser::no_forest(),
                    false,
                ),
                Err(_) => {
                    let mut h = dynparser::panic_json("timeout");
                    h["k"] = json!("hang");
                    (h, vec![], dynparser::empty_tree(), dynparser::no_forest(), true)
                }
            };
            let out = json!({
                "id": id, "iid": inp.get("iid").cloned().unwrap_or(json!(0)),
                "g": gref, "algo": cfg.algo, "partial": partial_in,
                "bytes": text.bytes().map(|b| json!(b)).collect::<Vec<_>>(),
                "lex": inp.get("lex").cloned().unwrap_or(json!([])),
                "meta": inp.get("meta").cloned().unwrap_or(json!({})),
                "res": res, "ev": ev, "tree": tree, "forest": forest,
            });
            writeln!(traces, "{}", out).unwrap();
            if hung {
                traces.flush().unwrap();
                eprintln!("HANG case_index={ci}");
                std::process::exit(3);
            }
        }
    }
}
