//! vdrive run <cases.ndjson> <outprefix> [--skip N] [--timeout-ms T]
//!
//! For every case: dump the table the real compiler builds (hook), then run the
//! real LR / GLR runtime on every input and record what happened.
//! Outputs: <outprefix>.dumps.ndjson, <outprefix>.errs.ndjson,
//! <outprefix>.traces.ndjson. Exit status 3 = a parse did not finish within
//! the timeout (recorded as "hang"); restart with --skip.
use std::io::Write;
use std::sync::mpsc;
use std::time::Duration;

use serde_json::{json, Value};
use vharness::dynparser::{self, Def};
use vharness::{catch, classify_error, Cfg};

enum Timed<T> {
    Done(T),
    Panic(String),
    Hang,
}

/// Runs `f` on its own thread (large stack), catching panics, giving up after
/// `ms` milliseconds (the thread is abandoned; the caller exits the process).
fn timed<T: Send + 'static>(ms: u64, f: impl FnOnce() -> T + Send + std::panic::UnwindSafe + 'static) -> Timed<T> {
    let (tx, rx) = mpsc::channel();
    std::thread::Builder::new()
        .stack_size(256 << 20)
        .spawn(move || {
            let _ = tx.send(catch(f));
        })
        .unwrap();
    match rx.recv_timeout(Duration::from_millis(ms)) {
        Ok(Ok(x)) => Timed::Done(x),
        Ok(Err(p)) => Timed::Panic(p),
        Err(_) => Timed::Hang,
    }
}

fn main() {
    let args: Vec<String> = std::env::args().collect();
    if args.len() < 4 || args[1] != "run" {
        eprintln!("usage: vdrive run <cases.ndjson> <outprefix> [--skip N] [--timeout-ms T]");
        std::process::exit(2);
    }
    let mut skip = 0usize;
    let mut timeout_ms = 10_000u64;
    // resume after a crash of this process (stack overflow / abort in the code under test)
    let mut resume_input: Option<usize> = None;
    let mut crash_phase = String::new();
    let mut i = 4;
    while i < args.len() {
        match args[i].as_str() {
            "--skip" => {
                skip = args[i + 1].parse().unwrap();
                i += 2
            }
            "--resume-input" => {
                resume_input = Some(args[i + 1].parse().unwrap());
                i += 2
            }
            "--crash" => {
                crash_phase = args[i + 1].clone();
                i += 2
            }
            "--timeout-ms" => {
                timeout_ms = args[i + 1].parse().unwrap();
                i += 2
            }
            _ => i += 1,
        }
    }
    // keep panics quiet; they are recorded as data
    std::panic::set_hook(Box::new(|_| {}));
    let cases = std::fs::read_to_string(&args[2]).expect("cases file");
    let open = |suffix: &str| {
        std::fs::OpenOptions::new()
            .create(true)
            .append(true)
            .open(format!("{}.{}.ndjson", args[3], suffix))
            .unwrap()
    };
    let mut dumps = open("dumps");
    let mut errs = open("errs");
    let mut traces = open("traces");
    // number of dump lines already present (when restarted with --skip)
    let mut ndumps = std::fs::read_to_string(format!("{}.dumps.ndjson", args[3]))
        .map(|s| s.lines().count())
        .unwrap_or(0);

    let progress_path = format!("{}.progress", args[3]);
    let progress = |ci: usize, ii: usize, phase: &str| {
        let _ = std::fs::write(&progress_path, format!("{ci} {ii} {phase}"));
    };
    for (ci, line) in cases.lines().enumerate() {
        if ci < skip || line.trim().is_empty() {
            continue;
        }
        let resume = if ci == skip { resume_input } else { None };
        if resume.is_none() {
            progress(ci, 0, "dump");
        }
        let case: Value = serde_json::from_str(line).expect("case json");
        let id = case["id"].clone();
        let grammar = case["grammar"].as_str().unwrap().to_string();
        let cfg = Cfg::from_json(&case["cfg"]);
        let settings = cfg.settings();
        let raw = cfg.raw;
        let g2 = grammar.clone();
        if ci == skip && crash_phase == "dump" {
            writeln!(
                errs,
                "{}",
                json!({"id": id, "cfg": cfg.to_json(), "class": "crash", "msg": "process aborted while compiling", "grammar": grammar, "ci": ci})
            )
            .unwrap();
            continue;
        }
        let dumped = catch(move || {
            if raw {
                rustemo_compiler::verif::table_json_raw(&g2, &settings)
            } else {
                rustemo_compiler::verif::table_json(&g2, &settings)
            }
        });
        let table: Value = match dumped {
            Ok(Ok(j)) => serde_json::from_str(j.as_str()).expect("hook json"),
            Ok(Err(e)) => {
                let (class, msg) = classify_error(&e);
                writeln!(
                    errs,
                    "{}",
                    json!({"id": id, "cfg": cfg.to_json(), "class": class, "msg": msg, "grammar": grammar, "ci": ci})
                )
                .unwrap();
                continue;
            }
            Err(p) => {
                writeln!(
                    errs,
                    "{}",
                    json!({"id": id, "cfg": cfg.to_json(), "class": "panic", "msg": p, "grammar": grammar, "ci": ci})
                )
                .unwrap();
                continue;
            }
        };
        let mut rec = serde_json::Map::new();
        rec.insert("id".into(), id.clone());
        rec.insert("cfg".into(), cfg.to_json());
        rec.insert("grammar".into(), json!(grammar));
        if let Some(m) = case.get("meta") {
            rec.insert("meta".into(), m.clone());
        }
        rec.insert("t".into(), table.clone());
        // Optional twin: another text of the same grammar (no decoration) under the same
        // settings; CheckTables compares the two automata.
        if let Some(tw) = case.get("twin_grammar").and_then(|x| x.as_str()) {
            let tw = tw.to_string();
            rec.insert("twin_grammar".into(), json!(tw));
            let st2 = cfg.settings();
            let twin = catch(move || {
                if raw {
                    rustemo_compiler::verif::table_json_raw(&tw, &st2)
                } else {
                    rustemo_compiler::verif::table_json(&tw, &st2)
                }
            });
            if let Ok(Ok(j)) = twin {
                let t2: Value = serde_json::from_str(j.as_str()).expect("hook json");
                rec.insert("t2".into(), json!({"states": t2["states"], "prods": t2["prods"]}));
            }
        }
        writeln!(dumps, "{}", Value::Object(rec)).unwrap();
        ndumps += 1;
        let gref = ndumps;

        // Optional second table: the GLR parser for the same grammar (C07 / C03).
        let mut gdef: Option<(&'static Def, &'static [dynparser::Rec; dynparser::MAXT], Cfg, usize)> = None;
        if let Some(gc) = case.get("glr") {
            let gcfg = Cfg::from_json(gc);
            let gs = gcfg.settings();
            let g3 = grammar.clone();
            let graw = gcfg.raw;
            let gd = catch(move || {
                if graw {
                    rustemo_compiler::verif::table_json_raw(&g3, &gs)
                } else {
                    rustemo_compiler::verif::table_json(&g3, &gs)
                }
            });
            match gd {
                Ok(Ok(j)) => {
                    let gt: Value = serde_json::from_str(j.as_str()).expect("hook json");
                    let mut rec = serde_json::Map::new();
                    rec.insert("id".into(), id.clone());
                    rec.insert("cfg".into(), gcfg.to_json());
                    rec.insert("grammar".into(), json!(grammar));
                    if let Some(m) = case.get("meta") {
                        rec.insert("meta".into(), m.clone());
                    }
                    rec.insert("t".into(), gt.clone());
                    writeln!(dumps, "{}", Value::Object(rec)).unwrap();
                    ndumps += 1;
                    let d: &'static Def = Box::leak(Box::new(Def::from_dump(&gt)));
                    if let Ok(r) = dynparser::recognizers(d) {
                        gdef = Some((d, r, gcfg, ndumps));
                    }
                }
                Ok(Err(e)) => {
                    let (class, msg) = classify_error(&e);
                    writeln!(errs, "{}", json!({"id": id, "cfg": gcfg.to_json(), "class": class, "msg": msg, "grammar": grammar, "ci": ci})).unwrap();
                }
                Err(p) => {
                    writeln!(errs, "{}", json!({"id": id, "cfg": gcfg.to_json(), "class": "panic", "msg": p, "grammar": grammar, "ci": ci})).unwrap();
                }
            }
        }
        // An LR table with unresolved conflicts is not a parser the compiler would
        // emit (generate_parser refuses it), so it is dumped but never run.
        let lr_runnable = cfg.algo == "lr" && table["nconflicts"].as_u64().unwrap_or(0) == 0;
        let glr_primary = cfg.algo == "glr";
        if !lr_runnable && !glr_primary && gdef.is_none() {
            continue;
        }
        let inputs = match case.get("inputs").and_then(|x| x.as_array()) {
            Some(a) if !a.is_empty() => a.clone(),
            _ => continue,
        };
        let def: &'static Def = Box::leak(Box::new(Def::from_dump(&table)));
        let recs = match dynparser::recognizers(def) {
            Ok(r) => r,
            Err(e) => {
                eprintln!("case {id}: {e}");
                continue;
            }
        };
        let max_trees = case
            .get("max_trees")
            .and_then(|x| x.as_u64())
            .unwrap_or(200) as usize;
        // "reuse" with a GLR case: one GlrParser instance for the whole input sequence
        if case.get("reuse").and_then(|x| x.as_bool()) == Some(true) && glr_primary {
            if resume.is_some() {
                // the process died inside this session (stack overflow / abort in the code
                // under test): every input of the session is recorded as a crash
                for inp in inputs.iter() {
                    let text = inp["text"].as_str().unwrap();
                    let mut h = dynparser::panic_json("process aborted (stack overflow?)");
                    h["k"] = json!("crash");
                    let out = json!({
                        "id": id, "iid": inp.get("iid").cloned().unwrap_or(json!(0)),
                        "g": gref, "g2": gref, "algo": cfg.algo, "partial": cfg.partial,
                        "bytes": text.bytes().map(|b| json!(b)).collect::<Vec<_>>(),
                        "lex": inp.get("lex").cloned().unwrap_or(json!([])),
                        "lat": json!([]),
                        "meta": inp.get("meta").cloned().unwrap_or(json!({})),
                        "res": dynparser::none_json(), "ev": json!([]), "tree": dynparser::empty_tree(),
                        "gres": h, "forest": dynparser::no_forest(),
                    });
                    writeln!(traces, "{}", out).unwrap();
                }
                continue;
            }
            let (lm, go, skip_ws, partial) = (cfg.lm, cfg.go, cfg.skip_ws, cfg.partial);
            let texts: Vec<&'static str> = inputs
                .iter()
                .map(|i| &*Box::leak(i["text"].as_str().unwrap().to_string().into_boxed_str()))
                .collect();
            let (tx, rx) = mpsc::channel();
            let texts2 = texts.clone();
            progress(ci, 0, "glr");
            std::thread::Builder::new()
                .stack_size(256 << 20)
                .spawn(move || {
                    def.install(lm, go);
                    let mut session = dynparser::GlrSession::new(def, recs, partial, skip_ws, max_trees);
                    for t in texts2 {
                        let r = std::panic::catch_unwind(std::panic::AssertUnwindSafe(|| session.parse(t)));
                        let poisoned = r.is_err();
                        let _ = tx.send(r.map_err(|p| vharness::panic_message(p)));
                        if poisoned {
                            session = dynparser::GlrSession::new(def, recs, partial, skip_ws, max_trees);
                        }
                    }
                })
                .unwrap();
            for (ii, inp) in inputs.iter().enumerate() {
                let (gres, forest, hung) = match rx.recv_timeout(Duration::from_millis(timeout_ms)) {
                    Ok(Ok((a, b))) => (a, b, false),
                    Ok(Err(p)) => (dynparser::panic_json(&p), dynparser::no_forest(), false),
                    Err(_) => {
                        let mut h = dynparser::panic_json("timeout");
                        h["k"] = json!("hang");
                        (h, dynparser::no_forest(), true)
                    }
                };
                let text = texts[ii];
                let out = json!({
                    "id": id, "iid": inp.get("iid").cloned().unwrap_or(json!(0)),
                    "g": gref, "g2": gref, "algo": cfg.algo, "partial": partial,
                    "bytes": text.bytes().map(|b| json!(b)).collect::<Vec<_>>(),
                    "lex": inp.get("lex").cloned().unwrap_or(json!([])),
                    "lat": json!([]),
                    "meta": inp.get("meta").cloned().unwrap_or(json!({})),
                    "res": dynparser::none_json(), "ev": json!([]), "tree": dynparser::empty_tree(),
                    "gres": gres, "forest": forest,
                });
                writeln!(traces, "{}", out).unwrap();
                if hung {
                    traces.flush().unwrap();
                    eprintln!("HANG case_index={ci}");
                    std::process::exit(3);
                }
            }
            continue;
        }
        // "reuse": one LR parser instance for the whole input sequence of the case
        if case.get("reuse").and_then(|x| x.as_bool()) == Some(true) && lr_runnable {
            if resume.is_some() {
                // the process died inside this session: every input of it is recorded as a crash
                for inp in inputs.iter() {
                    let text = inp["text"].as_str().unwrap();
                    let mut h = dynparser::panic_json("process aborted (stack overflow?)");
                    h["k"] = json!("crash");
                    let out = json!({
                        "id": id, "iid": inp.get("iid").cloned().unwrap_or(json!(0)),
                        "g": gref, "g2": 0, "algo": cfg.algo, "partial": cfg.partial,
                        "bytes": text.bytes().map(|b| json!(b)).collect::<Vec<_>>(),
                        "lex": inp.get("lex").cloned().unwrap_or(json!([])),
                        "lat": json!([]),
                        "meta": inp.get("meta").cloned().unwrap_or(json!({})),
                        "res": h, "ev": json!([]), "tree": dynparser::empty_tree(),
                        "gres": dynparser::none_json(), "forest": dynparser::no_forest(),
                    });
                    writeln!(traces, "{}", out).unwrap();
                }
                continue;
            }
            let (lm, go, skip_ws, partial) = (cfg.lm, cfg.go, cfg.skip_ws, cfg.partial);
            let texts: Vec<&'static str> = inputs
                .iter()
                .map(|i| &*Box::leak(i["text"].as_str().unwrap().to_string().into_boxed_str()))
                .collect();
            let (tx, rx) = mpsc::channel();
            let texts2 = texts.clone();
            progress(ci, 0, "lr");
            // the GLR parser of the same grammar, reused over the same sequence (C07 on histories)
            let grx = gdef.clone().map(|(gd, gr, gc, gi)| {
                let (gtx, grx) = mpsc::channel();
                let texts3 = texts.clone();
                let (glm, ggo, gskip) = (gc.lm, gc.go, gc.skip_ws);
                std::thread::Builder::new()
                    .stack_size(256 << 20)
                    .spawn(move || {
                        gd.install(glm, ggo);
                        let mut session = dynparser::GlrSession::new(gd, gr, partial, gskip, max_trees);
                        for t in texts3 {
                            let r = std::panic::catch_unwind(std::panic::AssertUnwindSafe(|| session.parse(t)));
                            let poisoned = r.is_err();
                            let _ = gtx.send(r.map_err(|p| vharness::panic_message(p)));
                            if poisoned {
                                session = dynparser::GlrSession::new(gd, gr, partial, gskip, max_trees);
                            }
                        }
                    })
                    .unwrap();
                (grx, gi)
            });
            std::thread::Builder::new()
                .stack_size(256 << 20)
                .spawn(move || {
                    def.install(lm, go);
                    let mut session = dynparser::LrSession::new(def, recs, partial, skip_ws);
                    for t in texts2 {
                        let r = std::panic::catch_unwind(std::panic::AssertUnwindSafe(|| session.parse(t)));
                        let poisoned = r.is_err();
                        let _ = tx.send(r.map_err(|_| "panic".to_string()));
                        if poisoned {
                            session = dynparser::LrSession::new(def, recs, partial, skip_ws);
                        }
                    }
                })
                .unwrap();
            for (ii, inp) in inputs.iter().enumerate() {
                let (res, ev, tree, hung) = match rx.recv_timeout(Duration::from_millis(timeout_ms)) {
                    Ok(Ok((a, b, c))) => (a, b, c, false),
                    Ok(Err(p)) => (dynparser::panic_json(&p), vec![], dynparser::empty_tree(), false),
                    Err(_) => {
                        let mut h = dynparser::panic_json("timeout");
                        h["k"] = json!("hang");
                        (h, vec![], dynparser::empty_tree(), true)
                    }
                };
                let text = texts[ii];
                let mut hung = hung;
                let (gres, forest, g2) = match &grx {
                    Some((grx, gi)) if !hung => match grx.recv_timeout(Duration::from_millis(timeout_ms)) {
                        Ok(Ok((a, b))) => (a, b, *gi),
                        Ok(Err(p)) => (dynparser::panic_json(&p), dynparser::no_forest(), *gi),
                        Err(_) => {
                            hung = true;
                            let mut h = dynparser::panic_json("timeout");
                            h["k"] = json!("hang");
                            (h, dynparser::no_forest(), *gi)
                        }
                    },
                    _ => (dynparser::none_json(), dynparser::no_forest(), 0),
                };
                let out = json!({
                    "id": id, "iid": inp.get("iid").cloned().unwrap_or(json!(0)),
                    "g": gref, "g2": g2, "algo": cfg.algo, "partial": partial,
                    "bytes": text.bytes().map(|b| json!(b)).collect::<Vec<_>>(),
                    "lex": inp.get("lex").cloned().unwrap_or(json!([])),
                    "lat": json!([]),
                    "meta": inp.get("meta").cloned().unwrap_or(json!({})),
                    "res": res, "ev": ev, "tree": tree,
                    "gres": gres, "forest": forest,
                });
                writeln!(traces, "{}", out).unwrap();
                if hung {
                    traces.flush().unwrap();
                    eprintln!("HANG case_index={ci}");
                    std::process::exit(3);
                }
            }
            continue;
        }
        for (ii, inp) in inputs.into_iter().enumerate() {
            if let Some(r) = resume {
                if ii < r {
                    continue;
                }
            }
            let crashed_here = resume == Some(ii);
            let text: &'static str =
                Box::leak(inp["text"].as_str().unwrap().to_string().into_boxed_str());
            let partial_in = inp.get("partial").and_then(|x| x.as_bool()).unwrap_or(cfg.partial);
            let mut hung = false;
            // --- LR run
            let (res, ev, tree) = if lr_runnable && crashed_here && crash_phase == "lr" {
                let mut h = dynparser::panic_json("process aborted (stack overflow?)");
                h["k"] = json!("crash");
                (h, vec![], dynparser::empty_tree())
            } else if lr_runnable {
                progress(ci, ii, "lr");
                let (lm, go, skip_ws) = (cfg.lm, cfg.go, cfg.skip_ws);
                let anylex = inp.get("lexer").and_then(|x| x.as_str()) == Some("any");
                let r = timed(timeout_ms, move || {
                    def.install(lm, go);
                    if anylex {
                        dynparser::run_lr_anylexer(def, recs, text, partial_in)
                    } else {
                        dynparser::run_lr(def, recs, text, partial_in, skip_ws)
                    }
                });
                match r {
                    Timed::Done(x) => x,
                    Timed::Panic(p) => (dynparser::panic_json(&p), vec![], dynparser::empty_tree()),
                    Timed::Hang => {
                        hung = true;
                        let mut h = dynparser::panic_json("timeout");
                        h["k"] = json!("hang");
                        (h, vec![], dynparser::empty_tree())
                    }
                }
            } else {
                (dynparser::none_json(), vec![], dynparser::empty_tree())
            };
            // --- GLR run
            let gl = if glr_primary {
                Some((def, recs, cfg.clone(), gref))
            } else {
                gdef.clone()
            };
            let (gres, forest, g2) = match (&gl, hung) {
                (Some((_, _, _, gi)), false) if crashed_here && crash_phase == "glr" => {
                    let mut h = dynparser::panic_json("process aborted (stack overflow?)");
                    h["k"] = json!("crash");
                    (h, dynparser::no_forest(), *gi)
                }
                (Some((d, r, c, gi)), false) => {
                    progress(ci, ii, "glr");
                    let (d, r, gi) = (*d, *r, *gi);
                    let (lm, go, skip_ws) = (c.lm, c.go, c.skip_ws);
                    let gpartial = partial_in;
                    let anylex = inp.get("lexer").and_then(|x| x.as_str()) == Some("any");
                    let rr = timed(timeout_ms, move || {
                        d.install(lm, go);
                        if anylex {
                            dynparser::run_glr_anylexer(d, r, text, gpartial, max_trees)
                        } else {
                            dynparser::run_glr(d, r, text, gpartial, skip_ws, max_trees)
                        }
                    });
                    match rr {
                        Timed::Done((a, b)) => (a, b, gi),
                        Timed::Panic(p) => (dynparser::panic_json(&p), dynparser::no_forest(), gi),
                        Timed::Hang => {
                            hung = true;
                            let mut h = dynparser::panic_json("timeout");
                            h["k"] = json!("hang");
                            (h, dynparser::no_forest(), gi)
                        }
                    }
                }
                _ => (dynparser::none_json(), dynparser::no_forest(), 0),
            };
            let out = json!({
                "id": id, "iid": inp.get("iid").cloned().unwrap_or(json!(0)),
                "g": if lr_runnable || glr_primary { gref } else { 0 }, "g2": g2,
                "algo": cfg.algo, "partial": partial_in,
                "bytes": text.bytes().map(|b| json!(b)).collect::<Vec<_>>(),
                "lex": inp.get("lex").cloned().unwrap_or(json!([])),
                "lat": inp.get("lat").cloned().unwrap_or(json!([])),
                "meta": inp.get("meta").cloned().unwrap_or(json!({})),
                "res": res, "ev": ev, "tree": tree, "gres": gres, "forest": forest,
            });
            writeln!(traces, "{}", out).unwrap();
            if hung {
                traces.flush().unwrap();
                eprintln!("HANG case_index={ci}");
                std::process::exit(3);
            }
        }
    }
}
