//! vhist: drives the compiler's public API (`Settings::process_grammar`) the way
//! a build.rs would, for C16 / C17 / C18 / C09.
//!
//!   vhist api <request.json>          one compile in this (fresh) process; prints a JSON result
//!   vhist batch <cases.ndjson> <out.ndjson>
//!                                      many compiles, each under catch_unwind, plus grammar_json
use std::io::Write;
use std::path::PathBuf;

use rustemo_compiler::{
    BuilderType, GeneratorTableType, LexerType, ParserAlgo, Settings, TableType,
};
use serde_json::{json, Value};
use vharness::{catch, classify_error};

/// Settings through the library API, in the order main.rs applies the
/// command-line options (that order is the documented CLI <-> API correspondence).
fn settings_from(v: &Value, out_dir: Option<PathBuf>, out_dir_actions: Option<PathBuf>) -> Settings {
    let b = |k: &str| v.get(k).and_then(|x| x.as_bool());
    let s = |k: &str| v.get(k).and_then(|x| x.as_str());
    let mut st = Settings::new();
    if let Some(f) = b("force") {
        st = st.force(f);
    }
    if let Some(x) = b("actions") {
        st = st.actions(x);
    }
    if let Some(x) = b("ps") {
        st = st.prefer_shifts(x);
    }
    if let Some(x) = b("pse") {
        st = st.prefer_shifts_over_empty(x);
    }
    if let Some(x) = b("fancy") {
        st = st.fancy_regex(x);
    }
    if let Some(x) = b("partial") {
        st = st.partial_parse(x);
    }
    if let Some(x) = b("skip_ws") {
        st = st.skip_ws(x);
    }
    if let Some(x) = s("tt") {
        st = st.table_type(match x {
            "lalr" => TableType::LALR,
            "pager" => TableType::LALR_PAGER,
            _ => TableType::LALR_RN,
        });
    }
    if let Some(x) = s("algo") {
        st = st.parser_algo(if x == "glr" { ParserAlgo::GLR } else { ParserAlgo::LR });
    }
    if let Some(x) = s("gen") {
        st = st.generator_table_type(if x == "arrays" {
            GeneratorTableType::Arrays
        } else {
            GeneratorTableType::Functions
        });
    }
    if let Some(x) = s("lexer") {
        st = st.lexer_type(if x == "custom" { LexerType::Custom } else { LexerType::Default });
    }
    if let Some(x) = s("builder") {
        st = st.builder_type(match x {
            "generic" => BuilderType::Generic,
            "custom" => BuilderType::Custom,
            _ => BuilderType::Default,
        });
    }
    if let Some(x) = b("loc_info") {
        st = st.builder_loc_info(x);
    }
    if let Some(x) = b("dot") {
        st = st.dot(x);
    }
    if let Some(x) = b("print_table") {
        st = st.print_table(x);
    }
    if let Some(x) = s("input_type") {
        st = st.input_type(x.to_string());
    }
    if let Some(x) = b("ms") {
        st = st.lexical_disamb_most_specific(x);
    }
    if let Some(x) = b("lm") {
        st = st.lexical_disamb_longest_match(x);
    }
    if let Some(x) = b("go") {
        st = st.lexical_disamb_grammar_order(x);
    }
    // Settings::new() takes OUT_DIR / CARGO_MANIFEST_DIR from the environment; the
    // caller runs us with a clean environment, so both are None unless given.
    if let Some(o) = out_dir {
        st = st.out_dir_root(o);
    }
    if let Some(o) = out_dir_actions {
        st = st.out_dir_actions_root(o);
    }
    if b("actions_in_source_tree") == Some(true) {
        st = st.actions_in_source_tree();
    }
    st
}

fn compile(req: &Value) -> Value {
    let grammar = PathBuf::from(req["grammar_path"].as_str().unwrap());
    let out_dir = req.get("out_dir").and_then(|x| x.as_str()).map(PathBuf::from);
    let out_dir_actions = req.get("out_dir_actions").and_then(|x| x.as_str()).map(PathBuf::from);
    let sv = req["settings"].clone();
    // root dir: the grammar's directory unless the request says otherwise ("root_dir": null
    // leaves it unset, as plain rcomp does; a string sets it as given)
    let root = match req.get("root_dir") {
        None => Some(grammar.parent().unwrap().to_path_buf()),
        Some(Value::String(s)) => Some(PathBuf::from(s)),
        Some(_) => None,
    };
    let r = catch(move || {
        let mut st = settings_from(&sv, out_dir, out_dir_actions);
        if let Some(root) = root {
            st = st.root_dir(root);
        }
        st.process_grammar(&grammar)
    });
    match r {
        Ok(Ok(())) => json!({"outcome": "ok", "class": "", "msg": ""}),
        Ok(Err(e)) => {
            let (class, msg) = classify_error(&e);
            json!({"outcome": "err", "class": class, "msg": msg})
        }
        Err(p) => json!({"outcome": "panic", "class": "panic", "msg": p}),
    }
}

/// The items of a Rust source file as (kind, name, token string).
fn items_of(path: &std::path::Path) -> Result<Vec<Value>, String> {
    use quote::ToTokens;
    let text = std::fs::read_to_string(path).map_err(|e| format!("read: {e}"))?;
    let file = syn::parse_file(&text).map_err(|e| format!("syn: {e}"))?;
    Ok(file
        .items
        .iter()
        .map(|it| {
            let (kind, name) = match it {
                syn::Item::Enum(e) => ("type", e.ident.to_string()),
                syn::Item::Struct(e) => ("type", e.ident.to_string()),
                syn::Item::Type(e) => ("type", e.ident.to_string()),
                syn::Item::Fn(f) => ("fn", f.sig.ident.to_string()),
                syn::Item::Use(_) => ("use", String::new()),
                _ => ("other", String::new()),
            };
            // the compiler re-prints the file with prettyplease, which normalises
            // trailing commas; they are formatting, not content
            let mut toks = it.to_token_stream().to_string();
            for close in ["}", ")", "]", ">"] {
                toks = toks.replace(&format!(", {close}"), &format!(" {close}"));
                toks = toks.replace(&format!(",{close}"), close);
            }
            while toks.contains("  ") {
                toks = toks.replace("  ", " ");
            }
            // "(a , b ,)" minus its trailing comma must read like "(a , b)"
            for close in [")", "]"] {
                toks = toks.replace(&format!(" {close}"), close);
            }
            json!([kind, name, toks])
        })
        .collect())
}

fn rewrite(path: &std::path::Path, f: impl FnOnce(&mut syn::File)) -> Result<(), String> {
    use quote::ToTokens;
    let text = std::fs::read_to_string(path).map_err(|e| format!("read: {e}"))?;
    let mut file = syn::parse_file(&text).map_err(|e| format!("syn: {e}"))?;
    f(&mut file);
    // plain token string: valid Rust, formatting irrelevant (the compiler re-prints the file)
    let mut out = String::new();
    for a in &file.attrs {
        out.push_str(&a.to_token_stream().to_string());
        out.push('\n');
    }
    for it in &file.items {
        out.push_str(&it.to_token_stream().to_string());
        out.push('\n');
    }
    std::fs::write(path, out).map_err(|e| format!("write: {e}"))
}

fn item_key(it: &syn::Item) -> (String, String) {
    match it {
        syn::Item::Enum(e) => ("type".into(), e.ident.to_string()),
        syn::Item::Struct(e) => ("type".into(), e.ident.to_string()),
        syn::Item::Type(e) => ("type".into(), e.ident.to_string()),
        syn::Item::Fn(f) => ("fn".into(), f.sig.ident.to_string()),
        _ => ("other".into(), String::new()),
    }
}

/// A history of operations on one actions file (C18): generate / delete / edit / add.
fn history(req: &Value) -> Value {
    let dir = PathBuf::from(req["dir"].as_str().unwrap());
    std::fs::create_dir_all(&dir).unwrap();
    let gp = dir.join("g.rustemo");
    std::fs::write(&gp, req["grammar"].as_str().unwrap()).unwrap();
    // where the actions file lives and who generates it: "tree" (API, actions_in_source_tree),
    // "adir" (API, a separate actions directory; force(false) first, out_dir_actions_root last,
    // the order rcomp uses), "cli" (plain rcomp: everything next to the grammar), "cli-a"
    // (rcomp -o/-a)
    let place = req.get("place").and_then(|x| x.as_str()).unwrap_or("tree").to_string();
    let actions = if place == "adir" || place == "cli-a" {
        dir.join("acts").join("g_actions.rs")
    } else {
        dir.join("g_actions.rs")
    };
    let mut out = vec![];
    for step in req["steps"].as_array().unwrap() {
        let op = step["op"].as_str().unwrap();
        let mut outcome = json!("ok");
        match op {
            "generate" if place == "cli" || place == "cli-a" => {
                let mut cmd = std::process::Command::new(req["rcomp"].as_str().unwrap());
                cmd.arg(&gp);
                if place == "cli-a" {
                    cmd.arg("-o").arg(dir.join("out")).arg("-a").arg(dir.join("acts"));
                }
                if step.get("force").and_then(|x| x.as_bool()) == Some(true) {
                    cmd.arg("--force");
                }
                if req["settings"].get("loc_info").and_then(|x| x.as_bool()) == Some(true) {
                    cmd.arg("--builder-loc-info");
                }
                cmd.env_remove("OUT_DIR").env_remove("CARGO_MANIFEST_DIR").env("NO_COLOR", "1");
                outcome = match cmd.output() {
                    Ok(o) => {
                        let text = String::from_utf8_lossy(&o.stdout).to_string() + &String::from_utf8_lossy(&o.stderr);
                        if !o.status.success() {
                            json!({"outcome": "panic", "class": "panic", "msg": text.chars().rev().take(200).collect::<String>().chars().rev().collect::<String>()})
                        } else if text.contains("not generated") {
                            json!({"outcome": "err", "class": "", "msg": ""})
                        } else {
                            json!({"outcome": "ok", "class": "", "msg": ""})
                        }
                    }
                    Err(e) => json!({"outcome": "crash", "class": "", "msg": e.to_string()}),
                };
            }
            "generate" => {
                let mut sv = req["settings"].clone();
                if let Some(f) = step.get("force") {
                    sv["force"] = f.clone();
                }
                let r = if place == "adir" {
                    if sv.get("force").is_none() {
                        sv["force"] = json!(false);
                    }
                    compile(&json!({"grammar_path": gp.to_str().unwrap(), "settings": sv,
                                    "out_dir": dir.join("out").to_str().unwrap(),
                                    "out_dir_actions": dir.join("acts").to_str().unwrap()}))
                } else {
                    sv["actions_in_source_tree"] = json!(true);
                    compile(&json!({"grammar_path": gp.to_str().unwrap(), "settings": sv,
                                    "out_dir": dir.join("out").to_str().unwrap()}))
                };
                outcome = r;
            }
            "delete" => {
                let names: Vec<(String, String)> = step["names"]
                    .as_array()
                    .unwrap()
                    .iter()
                    .map(|p| (p[0].as_str().unwrap().to_string(), p[1].as_str().unwrap().to_string()))
                    .collect();
                if let Err(e) = rewrite(&actions, |f| f.items.retain(|it| !names.contains(&item_key(it)))) {
                    outcome = json!(e);
                }
            }
            "edit" => {
                // a user edit of one item: the item keeps its name (that is what identifies
                // it), its text changes.  how: body | generic | attr | doc | vis | newtype
                let name = step["name"].as_str().unwrap().to_string();
                let how = step.get("how").and_then(|x| x.as_str()).unwrap_or("body").to_string();
                if let Err(e) = rewrite(&actions, |f| {
                    for it in f.items.iter_mut() {
                        if item_key(it).1 != name {
                            continue;
                        }
                        let attr: syn::Attribute = match how.as_str() {
                            "doc" => syn::parse_quote!(#[doc = " edited by the user"]),
                            _ => syn::parse_quote!(#[allow(dead_code, clippy::all)]),
                        };
                        match it {
                            syn::Item::Fn(func) => match how.as_str() {
                                "generic" => func.sig.generics = syn::parse_quote!(<'user, const N: usize>),
                                "attr" | "doc" => func.attrs.push(attr),
                                "vis" => func.vis = syn::parse_quote!(pub(crate)),
                                _ => func.block = Box::new(syn::parse_quote!({ todo!("edited by the user") })),
                            },
                            syn::Item::Type(t) => match how.as_str() {
                                "generic" => t.generics = syn::parse_quote!(<T = i64>),
                                "attr" | "doc" => t.attrs.push(attr),
                                "vis" => t.vis = syn::parse_quote!(pub(crate)),
                                "newtype" => {
                                    let id = t.ident.clone();
                                    let ty = t.ty.clone();
                                    *it = syn::parse_quote!(pub struct #id(pub #ty););
                                }
                                _ => t.ty = Box::new(syn::parse_quote!(UserType)),
                            },
                            syn::Item::Struct(st) => match how.as_str() {
                                "generic" => st.generics = syn::parse_quote!(<T = ()>),
                                "attr" | "doc" => st.attrs.push(attr),
                                "vis" => st.vis = syn::parse_quote!(pub(crate)),
                                _ => st.attrs.push(syn::parse_quote!(#[derive(PartialEq)])),
                            },
                            syn::Item::Enum(en) => match how.as_str() {
                                "generic" => en.generics = syn::parse_quote!(<T = ()>),
                                "attr" | "doc" => en.attrs.push(attr),
                                "vis" => en.vis = syn::parse_quote!(pub(crate)),
                                _ => en.variants.push(syn::parse_quote!(UserVariant)),
                            },
                            _ => {}
                        }
                    }
                }) {
                    outcome = json!(e);
                }
            }
            "add" => {
                let name = step["name"].as_str().unwrap().to_string();
                let at = step["at"].as_u64().unwrap_or(0) as usize;
                let kind = step["kind"].as_str().unwrap().to_string();
                if let Err(e) = rewrite(&actions, |f| {
                    let id = quote::format_ident!("{}", name);
                    let item: syn::Item = match kind.as_str() {
                        "fn" => syn::parse_quote!(pub fn #id() -> usize { 42 }),
                        // items without a name of their own in the two namespaces: they are
                        // kept, never required
                        "use" => syn::parse_quote!(use std::collections::BTreeMap as #id;),
                        "const" => syn::parse_quote!(pub const #id: usize = 7;),
                        "impl" => syn::parse_quote!(impl Default for #id { fn default() -> Self { todo!() } }),
                        "mod" => syn::parse_quote!(#[cfg(test)] mod #id { #[test] fn t() { assert_eq!(1 + 1, 2); } }),
                        "macro" => syn::parse_quote!(macro_rules! #id { () => { 1 }; }),
                        _ => syn::parse_quote!(pub struct #id { pub x: usize }),
                    };
                    let at = at.min(f.items.len());
                    f.items.insert(at, item);
                }) {
                    outcome = json!(e);
                }
            }
            _ => {}
        }
        let items = match items_of(&actions) {
            Ok(i) => json!(i),
            Err(e) => json!([["error", e, ""]]),
        };
        out.push(json!({"op": op, "outcome": outcome, "items": items}));
    }
    json!({"id": req["id"], "steps": out})
}

fn main() {
    let args: Vec<String> = std::env::args().collect();
    std::panic::set_hook(Box::new(|_| {}));
    match args.get(1).map(|s| s.as_str()) {
        Some("api") => {
            let req: Value = serde_json::from_str(&std::fs::read_to_string(&args[2]).unwrap()).unwrap();
            let res = compile(&req);
            // the compiler prints progress on stdout; the result goes to a file
            std::fs::write(req["result_path"].as_str().unwrap(), res.to_string()).unwrap();
        }
        Some("api-dir") => {
            // Settings::process_dir over a tree, with exclusions
            let req: Value = serde_json::from_str(&std::fs::read_to_string(&args[2]).unwrap()).unwrap();
            let root = PathBuf::from(req["root"].as_str().unwrap());
            let out_dir = req.get("out_dir").and_then(|x| x.as_str()).map(PathBuf::from);
            let excl: Vec<String> = req["exclude"]
                .as_array()
                .map(|a| a.iter().map(|x| x.as_str().unwrap().to_string()).collect())
                .unwrap_or_default();
            let sv = req["settings"].clone();
            let r = catch(move || {
                let st = settings_from(&sv, out_dir.clone(), out_dir).root_dir(root).exclude(excl);
                st.process_dir()
            });
            let res = match r {
                Ok(Ok(())) => json!({"outcome": "ok", "class": "", "msg": ""}),
                Ok(Err(e)) => {
                    let (class, msg) = classify_error(&e);
                    json!({"outcome": "err", "class": class, "msg": msg})
                }
                Err(p) => json!({"outcome": "panic", "class": "panic", "msg": p}),
            };
            std::fs::write(req["result_path"].as_str().unwrap(), res.to_string()).unwrap();
        }
        Some("api-seq") => {
            // Settings configured by an arbitrary SEQUENCE of builder calls (order matters)
            let req: Value = serde_json::from_str(&std::fs::read_to_string(&args[2]).unwrap()).unwrap();
            let grammar = PathBuf::from(req["grammar_path"].as_str().unwrap());
            let out = PathBuf::from(req["out_dir"].as_str().unwrap());
            let calls = req["calls"].as_array().unwrap().clone();
            let root = grammar.parent().unwrap().to_path_buf();
            let r = catch(move || {
                let mut st = Settings::new().root_dir(root).out_dir_root(out.clone()).out_dir_actions_root(out);
                for c in calls {
                    let m = c[0].as_str().unwrap();
                    let a = &c[1];
                    let b = a.as_bool().unwrap_or(false);
                    let t = a.as_str().unwrap_or("");
                    st = match m {
                        "parser_algo" => st.parser_algo(if t == "glr" { ParserAlgo::GLR } else { ParserAlgo::LR }),
                        "table_type" => st.table_type(match t {
                            "lalr" => TableType::LALR,
                            "pager" => TableType::LALR_PAGER,
                            _ => TableType::LALR_RN,
                        }),
                        "prefer_shifts" => st.prefer_shifts(b),
                        "prefer_shifts_over_empty" => st.prefer_shifts_over_empty(b),
                        "most_specific" => st.lexical_disamb_most_specific(b),
                        "longest_match" => st.lexical_disamb_longest_match(b),
                        "grammar_order" => st.lexical_disamb_grammar_order(b),
                        "partial_parse" => st.partial_parse(b),
                        "skip_ws" => st.skip_ws(b),
                        "generator_table_type" => st.generator_table_type(if t == "arrays" {
                            GeneratorTableType::Arrays
                        } else {
                            GeneratorTableType::Functions
                        }),
                        "builder_type" => st.builder_type(match t {
                            "generic" => BuilderType::Generic,
                            "custom" => BuilderType::Custom,
                            _ => BuilderType::Default,
                        }),
                        "lexer_type" => st.lexer_type(if t == "custom" { LexerType::Custom } else { LexerType::Default }),
                        "builder_loc_info" => st.builder_loc_info(b),
                        "force" => st.force(b),
                        "actions_in_source_tree" => st.actions_in_source_tree(),
                        _ => st,
                    };
                }
                st.process_grammar(&grammar)
            });
            let res = match r {
                Ok(Ok(())) => json!({"outcome": "ok", "class": "", "msg": ""}),
                Ok(Err(e)) => {
                    let (class, msg) = classify_error(&e);
                    json!({"outcome": "err", "class": class, "msg": msg})
                }
                Err(p) => json!({"outcome": "panic", "class": "panic", "msg": p}),
            };
            std::fs::write(req["result_path"].as_str().unwrap(), res.to_string()).unwrap();
        }
        Some("batch") => {
            let cases = std::fs::read_to_string(&args[2]).unwrap();
            let mut out = std::fs::File::create(&args[3]).unwrap();
            let progress = format!("{}.progress", args[3]);
            for (ci, line) in cases.lines().enumerate() {
                if line.trim().is_empty() {
                    continue;
                }
                let _ = std::fs::write(&progress, format!("{ci}"));
                let req: Value = serde_json::from_str(line).unwrap();
                // the compiler may not terminate (that is data for C16): run it on its own
                // thread, give up after the timeout, record "hang" and leave the process
                let ms: u64 = std::env::var("VHIST_TIMEOUT_MS").ok().and_then(|x| x.parse().ok()).unwrap_or(30_000);
                let (tx, rx) = std::sync::mpsc::channel();
                let req2 = req.clone();
                std::thread::Builder::new()
                    .stack_size(64 << 20)
                    .spawn(move || {
                        let _ = tx.send(compile(&req2));
                    })
                    .unwrap();
                let mut res = match rx.recv_timeout(std::time::Duration::from_millis(ms)) {
                    Ok(r) => r,
                    Err(_) => {
                        let mut h = json!({"outcome": "hang", "class": "hang",
                                           "msg": format!("no result after {ms} ms")});
                        h["id"] = req["id"].clone();
                        writeln!(out, "{}", h).unwrap();
                        out.flush().unwrap();
                        std::process::exit(3);
                    }
                };
                res["id"] = req["id"].clone();
                if req.get("want_grammar").and_then(|x| x.as_bool()) == Some(true) {
                    let text = std::fs::read_to_string(req["grammar_path"].as_str().unwrap())
                        .unwrap_or_default();
                    let gj = catch(move || rustemo_compiler::verif::grammar_json(&text));
                    res["g"] = match gj {
                        Ok(Ok(j)) => serde_json::from_str(&j).unwrap(),
                        Ok(Err(e)) => json!({"err": classify_error(&e).0}),
                        Err(p) => json!({"err": "panic", "msg": p}),
                    };
                }
                writeln!(out, "{}", res).unwrap();
            }
        }
        Some("history") => {
            let cases = std::fs::read_to_string(&args[2]).unwrap();
            let mut out = std::fs::File::create(&args[3]).unwrap();
            for line in cases.lines() {
                if line.trim().is_empty() {
                    continue;
                }
                let req: Value = serde_json::from_str(line).unwrap();
                let r = catch(move || history(&req));
                match r {
                    Ok(v) => writeln!(out, "{}", v).unwrap(),
                    Err(p) => writeln!(out, "{}", json!({"id": "?", "panic": p, "steps": []})).unwrap(),
                }
            }
        }
        _ => {
            eprintln!("usage: vhist api <request.json> | batch <cases.ndjson> <out.ndjson>");
            std::process::exit(2);
        }
    }
}
