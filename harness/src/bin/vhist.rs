//! vhist: drives the compiler's public API (`Settings::process_grammar`) the way
//! a build.rs would, for C16 / C17 / C18 / C09.
//!
//!   vhist api <request.json>          one compile in this (fresh) process; prints a JSON result
//!   vhist batch <cases.ndjson> <out.ndjson>
//!                                      many compiles, each under catch_unwind, plus grammar_json
use std::io::Write;
use std::path::PathBuf;

use rustemo_compiler::{
    BuilderType, GeneratorTableType, LexerType, ParserAlgo, Settings, TableType,
};
use serde_json::{json, Value};
use vharness::{catch, classify_error};

/// Settings through the library API, in the order main.rs applies the
/// command-line options (that order is the documented CLI <-> API correspondence).
fn settings_from(v: &Value, out_dir: Option<PathBuf>, out_dir_actions: Option<PathBuf>) -> Settings {
    let b = |k: &str| v.get(k).and_then(|x| x.as_bool());
    let s = |k: &str| v.get(k).and_then(|x| x.as_str());
    let mut st = Settings::new();
    if let Some(f) = b("force") {
        st = st.force(f);
    }
    if let Some(x) = b("actions") {
        st = st.actions(x);
    }
    if let Some(x) = b("ps") {
        st = st.prefer_shifts(x);
    }
    if let Some(x) = b("pse") {
        st = st.prefer_shifts_over_empty(x);
    }
    if let Some(x) = b("fancy") {
        st = st.fancy_regex(x);
    }
    if let Some(x) = b("partial") {
        st = st.partial_parse(x);
    }
    if let Some(x) = b("skip_ws") {
        st = st.skip_ws(x);
    }
    if let Some(x) = s("tt") {
        st = st.table_type(match x {
            "lalr" => TableType::LALR,
            "pager" => TableType::LALR_PAGER,
            _ => TableType::LALR_RN,
        });
    }
    if let Some(x) = s("algo") {
        st = st.parser_algo(if x == "glr" { ParserAlgo::GLR } else { ParserAlgo::LR });
    }
    if let Some(x) = s("gen") {
        st = st.generator_table_type(if x == "arrays" {
            GeneratorTableType::Arrays
        } else {
            GeneratorTableType::Functions
        });
    }
    if let Some(x) = s("lexer") {
        st = st.lexer_type(if x == "custom" { LexerType::Custom } else { LexerType::Default });
    }
    if let Some(x) = s("builder") {
        st = st.builder_type(match x {
            "generic" => BuilderType::Generic,
            "custom" => BuilderType::Custom,
            _ => BuilderType::Default,
        });
    }
    if let Some(x) = b("loc_info") {
        st = st.builder_loc_info(x);
    }
    if let Some(x) = s("input_type") {
        st = st.input_type(x.to_string());
    }
    if let Some(x) = b("ms") {
        st = st.lexical_disamb_most_specific(x);
    }
    if let Some(x) = b("lm") {
        st = st.lexical_disamb_longest_match(x);
    }
    if let Some(x) = b("go") {
        st = st.lexical_disamb_grammar_order(x);
    }
    // Settings::new() takes OUT_DIR / CARGO_MANIFEST_DIR from the environment; the
    // caller runs us with a clean environment, so both are None unless given.
    if let Some(o) = out_dir {
        st = st.out_dir_root(o);
    }
    if let Some(o) = out_dir_actions {
        st = st.out_dir_actions_root(o);
    }
    if b("actions_in_source_tree") == Some(true) {
        st = st.actions_in_source_tree();
    }
    st
}

fn compile(req: &Value) -> Value {
    let grammar = PathBuf::from(req["grammar_path"].as_str().unwrap());
    let out_dir = req.get("out_dir").and_then(|x| x.as_str()).map(PathBuf::from);
    let out_dir_actions = req.get("out_dir_actions").and_then(|x| x.as_str()).map(PathBuf::from);
    let sv = req["settings"].clone();
    let root = grammar.parent().unwrap().to_path_buf();
    let r = catch(move || {
        let st = settings_from(&sv, out_dir, out_dir_actions).root_dir(root);
        st.process_grammar(&grammar)
    });
    match r {
        Ok(Ok(())) => json!({"outcome": "ok", "class": "", "msg": ""}),
        Ok(Err(e)) => {
            let (class, msg) = classify_error(&e);
            json!({"outcome": "err", "class": class, "msg": msg})
        }
        Err(p) => json!({"outcome": "panic", "class": "panic", "msg": p}),
    }
}

fn main() {
    let args: Vec<String> = std::env::args().collect();
    std::panic::set_hook(Box::new(|_| {}));
    match args.get(1).map(|s| s.as_str()) {
        Some("api") => {
            let req: Value = serde_json::from_str(&std::fs::read_to_string(&args[2]).unwrap()).unwrap();
            let res = compile(&req);
            // the compiler prints progress on stdout; the result goes to a file
            std::fs::write(req["result_path"].as_str().unwrap(), res.to_string()).unwrap();
        }
        Some("batch") => {
            let cases = std::fs::read_to_string(&args[2]).unwrap();
            let mut out = std::fs::File::create(&args[3]).unwrap();
            let progress = format!("{}.progress", args[3]);
            for (ci, line) in cases.lines().enumerate() {
                if line.trim().is_empty() {
                    continue;
                }
                let _ = std::fs::write(&progress, format!("{ci}"));
                let req: Value = serde_json::from_str(line).unwrap();
                let mut res = compile(&req);
                res["id"] = req["id"].clone();
                if req.get("want_grammar").and_then(|x| x.as_bool()) == Some(true) {
                    let text = std::fs::read_to_string(req["grammar_path"].as_str().unwrap())
                        .unwrap_or_default();
                    let gj = catch(move || rustemo_compiler::verif::grammar_json(&text));
                    res["g"] = match gj {
                        Ok(Ok(j)) => serde_json::from_str(&j).unwrap(),
                        Ok(Err(e)) => json!({"err": classify_error(&e).0}),
                        Err(p) => json!({"err": "panic", "msg": p}),
                    };
                }
                writeln!(out, "{}", res).unwrap();
            }
        }
        _ => {
            eprintln!("usage: vhist api <request.json> | batch <cases.ndjson> <out.ndjson>");
            std::process::exit(2);
        }
    }
}
