#!/bin/bash
# tools_seedmatrix.sh : every seeded change against the check of the property it breaks.
here=$(cd "$(dirname "$0")" && pwd)
for d in $here/seeded/*/; do
  $here/tools_seedrun.sh $(basename $d)
done
