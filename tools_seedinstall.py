#!/usr/bin/env python3
"""tools_seedinstall.py <seed-id> <needs text> : copies a confirmed seed from /tmp/seed/<id>/out into seeded/<id>/."""
import json, os, shutil, subprocess, sys
s, need = sys.argv[1], sys.argv[2]
src = "/tmp/seed/%s" % s
dst = os.path.join(os.path.dirname(os.path.abspath(__file__)), "seeded", s)
os.makedirs(dst, exist_ok=True)
shutil.copy(src + "/out/patch.diff", dst + "/patch.diff")
shutil.copy(src + "/out/notes.md", dst + "/notes.md")
for name in os.listdir(src + "/out"):
    p = os.path.join(src, "out", name)
    if name.startswith("demo"):
        q = os.path.join(dst, name)
        if os.path.isdir(p):
            if os.path.isdir(q):
                shutil.rmtree(q)
            shutil.copytree(p, q, ignore=shutil.ignore_patterns("target", "Cargo.lock"))
        elif os.path.getsize(p) < 200000:
            shutil.copy(p, q)
open(dst + "/verify.log", "w").write(open(src + "/verify.log").read() + "demo with the patch: FAILS; demo after git apply -R: PASSES (re-run by hand after the sub-agent finished)\n")
json.dump({"breaks": s.split("-")[0], "needs": need,
           "source": "independent sub-agent given the property text, a scratch worktree and a one-line hint which code area to prefer (other seeds for the property already existed)",
           "confirmed": "patch applied in a scratch worktree: cargo nextest 168/168 pass; demonstration fails with the patch and passes without it (see verify.log)"},
          open(dst + "/meta.json", "w"), indent=1)
r = subprocess.run(["git", "-C", "/repo", "apply", "--check", dst + "/patch.diff"], capture_output=True, text=True)
print(s, r.stderr[:200] or "applies")
