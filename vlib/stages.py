"""Shared stages: each produces verdict records (computed by TLC) plus the
bookkeeping needed for replay files and evidence.  Stage outputs are cached
under /verif/.cache keyed by the complete working-tree state of /repo, the
machinery itself, tier and seed; cargo always runs first, so a changed source
is always rebuilt and a changed tree never hits a stale cache entry."""
import json
import os
import random
import time

from . import grammars as G
from . import run

CACHE = os.path.join(run.VERIF, ".cache")
_mem = {}
_key = None


def key():
    global _key
    if _key is None:
        _key = run.tree_key()
    return _key


def get(work, stage, tier, seed):
    k = (stage, tier, seed)
    if k in _mem:
        return _mem[k]
    run.build_harness()  # always: rebuilds from /repo's working tree
    path = os.path.join(CACHE, key(), "%s-%s-%d.json" % (stage, tier, seed))
    if os.path.exists(path) and not os.environ.get("VERIF_NOCACHE"):
        res = json.load(open(path))
        run.log("stage %s: cached (%s)" % (stage, path))
    else:
        t0 = time.time()
        res = STAGES[stage](work, tier, seed)
        res["wall"] = time.time() - t0
        os.makedirs(os.path.dirname(path), exist_ok=True)
        # keep the cache directory small: drop entries of other tree states
        for d in os.listdir(CACHE):
            if d != key() and d != "vgen":
                import shutil
                shutil.rmtree(os.path.join(CACHE, d), ignore_errors=True)
        with open(path + ".tmp", "w") as f:
            json.dump(res, f)
        os.replace(path + ".tmp", path)
        run.log("stage %s: done in %.1fs" % (stage, res["wall"]))
    _mem[k] = res
    return res


# ---------------------------------------------------------------------------
def has_meta(g):
    return bool(g.get("rule_meta")) or any(a.get("meta") for _, alts in g["rules"] for a in alts) \
        or any((len(t) > 4 and (t[4] or t[5])) for t in g["terms"])


def corpus(tier, seed):
    return [(gid, g, tags | ({"meta"} if has_meta(g) else set())) for gid, g, tags in corpus0(tier, seed)]


def structured_family():
    """Indirect left recursion through a cycle of k unit productions, with a chain of m unit
    productions below it ending in a terminal and/or EMPTY, used in one or two contexts:
    the classic stress shapes for closure / lookahead propagation fix points."""
    out = []
    for k in (1, 2, 3, 4):
        for m in (0, 1, 2, 3):
            for end in ("Te | ", "", "Te"):
                for ctx in (1, 2):
                    rules = ["S: A Tx" + (" | Tq A Ty" if ctx == 2 else "")]
                    cyc = ["A"] + ["C%d" % i for i in range(1, k)]
                    for i in range(len(cyc) - 1):
                        rules.append("%s: %s" % (cyc[i], cyc[i + 1]))
                    chain = ["D%d" % i for i in range(m)]
                    below = chain[0] if chain else None
                    last_alt = "A Ty" + (" | " + below if below else (" | " + end if end != "" else " | "))
                    rules.append("%s: %s" % (cyc[-1], last_alt))
                    for i in range(len(chain)):
                        nxt = chain[i + 1] if i + 1 < len(chain) else None
                        rules.append("%s: %s" % (chain[i], nxt if nxt else (end if end else "")))
                    out.append(("cyc%d_chain%d_%s_ctx%d" % (k, m, {"Te | ": "te", "": "e", "Te": "t"}[end], ctx),
                                G.G("; ".join(rules))))
    # lists (nullable / non-empty, left / right recursive, two-level like the sugar helpers)
    # in a context: after a reducible prefix, before a suffix
    lists = {"lrec_eps": "L: L Tc | ", "rrec_eps": "L: Tc L | ", "lrec": "L: L Tc | Tc", "rrec": "L: Tc L | Tc",
             "two_level": "L: M | ; M: M Tc | Tc", "lrec_sep_eps": "L: L Td Tc | Tc | "}
    prefixes = {"nt": "A", "t": "Ta", "nt_nullable": "B"}
    suffixes = {"t": "Tb", "none": "", "nullable": "E"}
    for ln, lrule in lists.items():
        for pn, pre in prefixes.items():
            for sn, suf in suffixes.items():
                rules = ["S: %s L %s" % (pre, suf), lrule, "A: Ta", "B: Ta | ", "E: Te | "]
                keep = [rules[0], lrule]
                if pre == "A":
                    keep.append(rules[2])
                if pre == "B":
                    keep.append(rules[3])
                if suf == "E":
                    keep.append(rules[4])
                out.append(("list_%s_pre_%s_suf_%s" % (ln, pn, sn), G.G("; ".join(keep))))
    # state splitting (LALR_PAGER / LALR_RN): ONE kernel {N1: .. e ., N2: .. e .} reached in three
    # left contexts (at the start, after b, after g) with the follow pair (s, t) of (N1, N2)
    # chosen per context: the second context is incompatible with the first (merging them would
    # give a reduce/reduce conflict, so the state is split), the third runs over all pairs
    # (compatible with one copy, both or none).  LR(1) by construction unless s = t is forced.
    pool = ["Ta", "Tc", "Tf", "Tp"]
    pairs = [(x, y) for x in pool for y in pool if x != y]
    first = ("Ta", "Tc")
    second = [pr for pr in pairs if pr[0] == first[1] or pr[1] == first[0]]
    for depth, body in ((1, "Te"), (2, "Td Te")):
        for i2, c2 in enumerate(second):
            for i3, c3 in enumerate(pairs):
                ctxs = [("", first), ("Tb ", c2), ("Tg ", c3)]
                alts = []
                for pre, (s_, t_) in ctxs:
                    alts.append("%sN1 %s" % (pre, s_))
                    alts.append("%sN2 %s" % (pre, t_))
                out.append(("merge3_d%d_%d_%d" % (depth, i2, i3),
                            G.G("S: %s; N1: %s; N2: %s" % (" | ".join(alts), body, body))))
    # ONE kernel set {A: x y ., B: x y .} whose items are listed in a different ORDER in two
    # contexts: items of one closure round come in production order, so wrapping one of the two
    # (C: A c) moves it to a later round.  With different follows per context a construction
    # that pairs kernel items by position adds lookaheads to the wrong item.
    for depth, body in ((1, "Tx"), (2, "Tx Ty")):
        for wrapped in ("A", "B"):
            for third in (False, True):
                other = "B" if wrapped == "A" else "A"
                rules = ["S: Tp M | Tt N" + (" | Tq K" if third else ""),
                         "M: A Tm | B Tn",
                         "N: %s Tf | C Tg" % other,
                         "C: %s Tc" % wrapped,
                         "A: %s" % body, "B: %s" % body]
                if third:
                    rules.append("K: D Th | %s Tm" % wrapped)
                    rules.append("D: %s Tn" % other)
                out.append(("kord_d%d_%s%s" % (depth, wrapped.lower(), "_3" if third else ""), G.G("; ".join(rules))))
    return out


def corpus0(tier, seed):
    """[(gid, grammar, tags)] -- curated shapes always, plus seeded slices of the
    enumerable family and seeded random grammars."""
    out = []
    for name, g in G.CURATED:
        out.append(("cur:" + name, g, {"curated"}))
    for name, g in G.ANNOTATED:
        out.append(("ann:" + name, g, {"annotated", "meta"}))
    for name, g in structured_family():
        out.append(("str:" + name, g, {"curated", "structured"}))
    # conflict gadgets with seeded priorities/associativity: parsers whose tables exist only
    # because the meta-data resolved shift/reduce and reduce/reduce conflicts
    for gid, g, tags in gadget_grammars(seed, 36 if tier == "quick" else 180):
        out.append((gid, g, {"meta", "gadget"}))
    rng = random.Random(seed * 7919 + 11)
    nfam = 150 if tier == "quick" else 1200
    fam = [g for g in G.family(2, 2, 3, 2) if G.useful(g)]
    fam1 = [g for g in G.family(1, 2, 3, 3) if G.useful(g)]
    pick = rng.sample(range(len(fam)), min(nfam, len(fam)))
    for i in sorted(pick):
        out.append(("fam223:%d" % i, fam[i], {"family"}))
    pick = rng.sample(range(len(fam1)), min(nfam // 3, len(fam1)))
    for i in sorted(pick):
        out.append(("fam1233:%d" % i, fam1[i], {"family"}))
    nrand = 200 if tier == "quick" else 1500
    for i in range(nrand):
        r = random.Random("%d-%d" % (seed, i))
        meta = i % 3 == 0
        big = i % 2 == 0
        g = G.random_grammar(r, max_nt=5 if big else 3, max_t=5 if big else 3,
                             max_p=12 if big else 7, max_r=5 if big else 3, meta=meta,
                             regex=(i % 5 == 0))
        if not G.useful(g):
            continue
        out.append(("rnd:%d:%d" % (seed, i), g, {"random"} | ({"meta"} if meta else set())))
    return out


def table_shards(work, name, dump_prefixes, mode, extra_env=None, module="CheckTables"):
    envs = []
    for pre in dump_prefixes:
        if os.path.getsize(pre + ".dumps.ndjson") == 0:
            continue
        e = {"DUMPS": pre + ".dumps.ndjson", "MODE": mode}
        e.update(extra_env or {})
        envs.append(e)
    rs = run.run_tlc_shards(work, module, module + ".cfg", envs)
    return rs


# ---------------------------------------------------------------------------
def stage_tables(work, tier, seed):
    """Raw dumps (all candidates kept) of every corpus grammar under the three
    table types; CanonLR1.Faithful etc. evaluated by TLC (CheckTables)."""
    cases = []
    gtext = {}
    ntwin = 0
    for gid, g, tags in corpus(tier, seed):
        text = G.render(g, assigns=True)
        # a decorated text (EMPTY references, named / bool assignments) is compiled next to the
        # undecorated text of the same grammar: the two automata have to be the same (C09)
        twin = G.render(g, plain=True)
        gtext[gid] = text
        for tt in ("lalr", "pager", "rn"):
            c = {"id": "%s|%s" % (gid, tt), "grammar": text,
                 "cfg": {"algo": "glr", "tt": tt, "raw": True, "ps": False, "pse": False},
                 "meta": dict({"nodis": False, "plain": False},
                              **({"abs": G.abstract_of(g)} if tt == "pager" else {}))}
            if twin != text and "meta" not in tags:
                c["twin_grammar"] = twin
                ntwin += 1
            cases.append(c)
    for path, text in repo_grammars(tier):
        gid = "repo:" + path
        gtext[gid] = text
        for tt in ("lalr", "pager", "rn"):
            cases.append({"id": "%s|%s" % (gid, tt), "grammar": text,
                          "cfg": {"algo": "glr", "tt": tt, "raw": True, "ps": False, "pse": False},
                          "meta": {"nodis": False, "plain": False}})
    pres = run.run_vdrive(work, "tables", cases)
    rs = table_shards(work, "tables", pres, "full")
    verdicts = [v for r in rs for v in r["verdicts"]]
    errs = [e for pre in pres for e in run.read_ndjson(pre + ".errs.ndjson")]
    nodis = {v["id"]: v["nconf"] == 0 for v in verdicts}
    return {"verdicts": verdicts, "wf": [dict(id=v["id"], wf=v["wf"]) for v in verdicts],
            "nodis": nodis, "gtext": gtext,
            "divergences": ["Automaton.Build differs from the dumped table: %s %s" % (v["id"], v["autodiff"][:3])
                            for v in verdicts if v.get("autodiff")][:20],
            "nautomata_reproduced": sum(1 for v in verdicts if not v.get("autodiff") and v["nstates"] <= 40),
            "errs": [dict(id=e["id"], cls=e["class"], msg=e["msg"][:200]) for e in errs],
            "states": sum(r["distinct"] for r in rs), "transitions": sum(r["states"] for r in rs),
            "ncases": len(cases), "ndumps": len(verdicts), "ntwins": ntwin,
            "samples": [dict(id=v["id"], nstates=v["nstates"], nconf=v["nconf"], lalr1=v["lalr1"],
                             grammar=gtext[v["id"].rsplit("|", 1)[0]]) for v in verdicts[:3]]}


def repo_grammars(tier):
    """Grammar files shipped in the repository (tests, examples, docs)."""
    out = []
    root = run.REPO
    for dp, dn, fn in os.walk(root):
        dn[:] = [d for d in dn if d not in ("target", ".git")]
        for f in sorted(fn):
            if f.endswith(".rustemo"):
                p = os.path.join(dp, f)
                try:
                    text = open(p).read()
                except Exception:
                    continue
                # the canonical LR(1) oracle is exponential in the worst case;
                # large grammars are checked in the thorough tier only
                nprod = text.count(";")
                if nprod > (40 if tier == "quick" else 140):
                    continue
                if "Layout" in text or "layout" in text:
                    pass
                out.append((os.path.relpath(p, root), text))
    out.sort()
    if tier == "quick":
        out = out[::3]
    return out


# ---------------------------------------------------------------------------
def gen_inputs(g, rng, n_sent, n_mut):
    """Token lists: sentences by random derivation, their mutations, edge cases."""
    names = G.term_names(g)
    toks = []
    seen = set()

    def add(t, kind):
        k = tuple(t)
        if k in seen or len(t) > 14:
            return
        seen.add(k)
        toks.append((list(t), kind))

    add([], "empty")
    for _ in range(n_sent * 3):
        if sum(1 for t in toks if t[1] == "sentence") >= n_sent:
            break
        s = G.random_sentence(g, rng, max_len=rng.choice([3, 5, 8, 10]))
        if s is not None:
            add(s, "sentence")
    base = [t for t, k in toks if k == "sentence"] or [[]]
    for _ in range(n_mut):
        if not names:
            break
        m = G.mutate(rng.choice(base), names + (["?"] if rng.random() < 0.15 else []), rng)
        add(m, "mutation")
    for n in names[:3]:
        add([n], "single")
    return toks


def stage_lr(work, tier, seed):
    """Real LRParser runs on corpus grammars (LALR and LALR_PAGER tables),
    validated by TraceLR (one TLC state per recorded event)."""
    tab = get(work, "tables", tier, seed)
    n_sent, n_mut = (6, 8) if tier == "quick" else (10, 12)
    cases = []
    inputs = {}
    gtext = {}
    variants = []
    for n, (gid, g, tags) in enumerate(corpus(tier, seed)):
        variants.append((gid, g, tags, ("lalr", "pager"), gid))
        # the same grammar with a user Layout rule (white space / line comments / nested comments)
        if "curated" in tags or n % 4 == 0:
            kind = G.LAYOUT_KINDS[n % len(G.LAYOUT_KINDS)]
            variants.append(("%s+lay:%s" % (gid, kind), G.with_layout(g, kind), tags, ("pager",), gid))
    for gid, g, tags, tts, base in variants:
        text = G.render(g)
        for tt in tts:
            cid = "%s|%s" % (gid, tt)
            # grammars with disambiguation meta-data also under the non-default shift preferences
            if "meta" in tags and tt == "pager" and "+lay:" not in gid:
                for tag2, extra in (("ps1", {"ps": True}), ("pse0", {"pse": False})):
                    cid2 = "%s/%s|%s" % (gid, tag2, tt)
                    rng2 = random.Random("%s-%d" % (cid2, seed))
                    ins2 = []
                    for k2, (toks, kind) in enumerate(gen_inputs(g, rng2, n_sent, n_mut // 2), 1):
                        t_in, lex2 = G.render_input(g, toks, rng2)
                        for partial in (False, True):
                            ins2.append({"iid": k2, "text": t_in, "lex": lex2, "partial": partial,
                                         "meta": {"kind": kind, "anylex": False}})
                        inputs["%s#%d" % (cid2, k2)] = [t_in, lex2]
                    gtext[cid2] = text
                    cases.append({"id": cid2, "grammar": text, "cfg": dict({"algo": "lr", "tt": tt}, **extra),
                                  "meta": {"nodis": False, "plain": False}, "inputs": ins2})
            nod = tab["nodis"].get("%s|%s" % (base, tt))
            if nod is None:
                continue  # grammar rejected by the compiler
            rng = random.Random("%s-%d" % (cid, seed))
            ins = []
            iid = 0
            for toks, kind in gen_inputs(g, rng, n_sent, n_mut):
                iid += 1
                seps = G.layout_seps(g, rng, len(toks) + 2)
                text_in, lex = G.render_input(g, toks, rng, seps=seps[2:] or [" "], lead=seps[0],
                                              trail=seps[1])
                twin = iid % 3 == 0
                if twin:
                    # the plain rendering first: the next record is its layout twin.  Plain means
                    # NO layout at all between the tokens every other time (a single blank
                    # otherwise): a parser that stops at the first layout must not look the same
                    # on both sides.  Full and partial parse each have their own pair.
                    t0, lex0 = G.render_input(g, toks, rng, seps=[""] if iid % 2 == 0 else [" "], lead="", trail="")
                    for partial in (False, True):
                        ins.append({"iid": iid, "text": t0, "lex": lex0, "partial": partial,
                                    "meta": {"kind": kind, "anylex": False}})
                for partial in (False, True):
                    ins.append({"iid": iid, "text": text_in, "lex": lex, "partial": partial,
                                "meta": dict({"kind": kind, "anylex": False},
                                             **({"twin": "layout"} if twin else {}))})
                # the same input through a user-style lexer that ignores the expected tokens
                if not g.get("layout") and iid % 2 == 0:
                    ins.append({"iid": iid, "text": text_in, "lex": lex, "partial": False, "lexer": "any",
                                "meta": {"kind": kind, "anylex": True}})
                    # ... and with partial parse on (whatever is returned as Ok must still be a
                    # derivation of a prefix)
                    ins.append({"iid": iid, "text": text_in, "lex": lex, "partial": True, "lexer": "any",
                                "meta": {"kind": kind, "anylex": True}})
                inputs["%s#%d" % (cid, iid)] = [text_in, lex]
            gtext[cid] = text
            cases.append({"id": cid, "grammar": text, "cfg": {"algo": "lr", "tt": tt},
                          "meta": {"nodis": bool(nod), "plain": "meta" not in tags}, "inputs": ins})
            # the same inputs once more through ONE parser instance (parse() called
            # repeatedly, also after failed parses)
            if tt == "pager" and (len(cases) % 3 == 0 or "curated" in tags):
                rid = "%s+reuse|%s" % (gid, tt)
                seq = [dict(x) for x in ins if not x["partial"] and x.get("lexer") != "any"]
                gtext[rid] = text
                for x in seq:
                    inputs["%s#%d" % (rid, x["iid"])] = [x["text"], x["lex"]]
                cases.append({"id": rid, "grammar": text, "cfg": {"algo": "lr", "tt": tt}, "reuse": True,
                              "meta": {"nodis": bool(nod), "plain": "meta" not in tags}, "inputs": seq})
    pres = run.run_vdrive(work, "lr", cases)
    envs = [{"DUMPS": p + ".dumps.ndjson", "TRACES": p + ".traces.ndjson"} for p in pres
            if os.path.getsize(p + ".traces.ndjson") > 0]
    rs = run.run_tlc_shards(work, "TraceLR", "TraceLR.cfg", envs)
    verdicts = [v for r in rs for v in r["verdicts"]]
    wfr = table_shards(work, "lr", pres, "wf")
    wf = [dict(id=v["id"], wf=v["wf"], epsloop=v["epsloop"]) for r in wfr for v in r["verdicts"]]
    div = []
    for r in rs:
        for line in r["out"].split("\n"):
            if line.startswith('<<"DIVERGENCE"'):
                div.append(line[:300])
    ntr = len(verdicts)
    nok = sum(1 for v in verdicts if v["mon"]["ok"])
    nsent = sum(1 for v in verdicts if v["mon"]["sent"])
    return {"verdicts": verdicts, "wf": wf, "divergences": div, "gtext": gtext, "inputs": inputs,
            "states": sum(r["distinct"] for r in rs) + sum(r["distinct"] for r in wfr),
            "transitions": sum(r["states"] for r in rs) + sum(r["states"] for r in wfr),
            "ntraces": ntr, "nok": nok, "nsent": nsent, "ncases": len(cases),
            "nevents": sum(v["nev"] for v in verdicts),
            "samples": [dict(id=v["id"], iid=v["iid"], input=inputs.get("%s#%d" % (v["id"], v["iid"]), [""])[0],
                             ok=v["mon"]["ok"], sentence=v["mon"]["sent"], events=v["nev"])
                        for v in verdicts[:40:8]]}


def stage_mci_lr(work, tier, seed):
    """TLC explores LRRuntime over the real dumped LR tables for every token
    string up to MAXLEN (MCI_LR)."""
    tab = get(work, "tables", tier, seed)
    maxlen = 5 if tier == "quick" else 7
    cases = []
    gtext = {}
    for gid, g, tags in corpus(tier, seed):
        if len(g["terms"]) > (4 if tier == "quick" else 5):
            continue
        text = G.render(g)
        for tt in ("lalr", "pager"):
            cid = "%s|%s" % (gid, tt)
            nod = tab["nodis"].get(cid)
            if nod is None:
                continue
            gtext[cid] = text
            cases.append({"id": cid, "grammar": text, "cfg": {"algo": "lr", "tt": tt},
                          "meta": {"nodis": bool(nod), "plain": "meta" not in tags}})
    pres = run.run_vdrive(work, "mci_lr", cases, shards=4)
    # keep only conflict-free (i.e. really generated) LR tables
    allp = work.path("mci_lr", "all")
    n = 0
    with open(allp + ".dumps.ndjson", "w") as f:
        for p in pres:
            for d in run.read_ndjson(p + ".dumps.ndjson"):
                if d["t"]["nconflicts"] == 0:
                    f.write(json.dumps(d) + "\n")
                    n += 1
    r = run.run_tlc(work, "MCI_LR", "MCI_LR.cfg",
                    {"DUMPS": allp + ".dumps.ndjson", "MAXLEN": str(maxlen), "REPLAY": "1"},
                    workers=run.NCPU, timeout=3000)
    # S -> I: every finished behaviour TLC found (table, token string, predicted status) is
    # replayed into the REAL compiler + LRParser and validated by TraceLR
    beh = {}
    for line in r["out"].split("\n"):
        if line.startswith('<<"REPLAY", '):
            b = json.loads(json.loads(line[len('<<"REPLAY", '):].rstrip()[:-2]))
            beh.setdefault(b["id"], []).append(b)
    gof = {}
    for gid, g, tags in corpus(tier, seed):
        gof[gid] = g
    rcases = []
    rinputs = {}
    pred = {}
    rng = random.Random(seed)
    cap = 60 if tier == "quick" else 400
    for cid, bs in beh.items():
        gid, tt = cid.rsplit("|", 1)
        g = gof[gid]
        names = [t[0] for t in g["terms"]]
        if len(bs) > cap:
            bs = rng.sample(bs, cap)
        ins = []
        for iid, b in enumerate(bs, 1):
            toks = [names[t - 1] for t in b["w"]]
            if b["status"] == "err" and b["la"] > 0:
                toks.append(names[b["la"] - 1])
            text_in, lex = G.render_input(g, toks, None)
            ins.append({"iid": iid, "text": text_in, "lex": lex, "partial": False,
                        "meta": {"kind": "replay", "anylex": False}})
            pred["%s#%d" % (cid, iid)] = b["status"]
            rinputs["%s#%d" % (cid, iid)] = [text_in, lex]
        nod = tab["nodis"].get(cid)
        rcases.append({"id": cid, "grammar": gtext[cid], "cfg": {"algo": "lr", "tt": tt},
                       "meta": {"nodis": bool(nod), "plain": True}, "inputs": ins})
    rp = run.run_vdrive(work, "mci_lr_replay", rcases)
    envs = [{"DUMPS": p + ".dumps.ndjson", "TRACES": p + ".traces.ndjson"} for p in rp
            if os.path.getsize(p + ".traces.ndjson") > 0]
    rs = run.run_tlc_shards(work, "TraceLR", "TraceLR.cfg", envs)
    tv = [v for x in rs for v in x["verdicts"]]
    div = ["MCI_LR predicts %s, real parser %s: %s #%s" % (pred.get("%s#%d" % (v["id"], v["iid"])),
                                                            "ok" if v["mon"]["ok"] else "err", v["id"], v["iid"])
           for v in tv if pred.get("%s#%d" % (v["id"], v["iid"])) in ("ok", "err")
           and (pred["%s#%d" % (v["id"], v["iid"])] == "ok") != v["mon"]["ok"]]
    return {"verdicts": r["verdicts"], "replay_verdicts": [v for v in tv if any(v["mon"][k] for k in ("c01", "c02", "c12", "c13", "c14", "c15"))],
            "inputs": {k: rinputs[k] for k in list(rinputs)[:0]} if False else {},
            "divergences": div[:20],
            "nreplayed": len(tv), "nbehaviours": sum(len(b) for b in beh.values()),
            "gtext": gtext, "states": r["distinct"] + sum(x["distinct"] for x in rs),
            "transitions": r["states"] + sum(x["states"] for x in rs),
            "ntraces": len(tv), "ntables": n, "maxlen": maxlen,
            "samples": [dict(table=c["id"], grammar=c["grammar"]) for c in cases[:2]]}



LEXAMB_TERMS = [("str", "a"), ("str", "aa"), ("str", "ab"), ("str", "b"), ("re", "a+"), ("re", "[ab]"), ("re", "ab?"),
                ("str", "ba"), ("re", "b+"), ("str", "aba")]
LEXAMB_SHAPES = ["S: X+;\nX: %s;", "S: X S | X;\nX: %s;", "S: S X | X;\nX: %s;", "S: X*;\nX: %s;",
                 "S: A B | B A | A;\nA: %s;\nB: %s;", "S: X X | X X X | X;\nX: %s;"]


def lexamb_grammars(seed, n):
    out = []
    for i in range(n):
        rng = random.Random("lexamb-%d-%d" % (seed, i))
        if i == 0:
            terms = [("str", "a"), ("str", "aa")]
            shape = LEXAMB_SHAPES[0]
        else:
            terms = rng.sample(LEXAMB_TERMS, rng.randint(2, 3))
            shape = rng.choice(LEXAMB_SHAPES)
        names = ["L%d" % k for k in range(len(terms))]
        if shape.count("%s") == 2:
            k = max(1, len(names) // 2)
            body = shape % (" | ".join(names[:k]), " | ".join(names[k:] or names[:1]))
        else:
            body = shape % " | ".join(names)
        text = body + "\nterminals\n" + "".join(
            "%s: %s;\n" % (nm, ("'%s'" % t) if k == "str" else ("/%s/" % t)) for nm, (k, t) in zip(names, terms))
        out.append(("lexamb:%d:%d" % (seed, i), text, terms))
    return out


def lattice_of(terms, text):
    """Token lattice of `text`: nodes are byte offsets after white space, an edge
    [i, t, j] for every terminal t (1-based index) matching at i and ending (after
    white space) at j.  Python's re is the independent matcher."""
    import re

    def skip(p):
        while p < len(text) and text[p].isspace():
            p += 1
        return p
    start = skip(0)
    edges = []
    seen = set()
    todo = [start]
    while todo:
        p = todo.pop()
        if p in seen or p >= len(text):
            continue
        seen.add(p)
        for ti, (k, t) in enumerate(terms, 1):
            if k == "str":
                l = len(t) if text.startswith(t, p) else 0
            else:
                m = re.compile(t).match(text, p)
                l = m.end() - p if m else 0
            if l > 0:
                q = skip(p + l)
                edges.append([p, ti, q])
                todo.append(q)
    return {"start": start, "end": len(text), "edges": edges}


def stage_glr(work, tier, seed):
    """Real GlrParser (LALR_RN table) and, for the same inputs, the real LR
    parser (LALR_PAGER table); forests validated by TraceGLR."""
    tab = get(work, "tables", tier, seed)
    n_sent, n_mut = (5, 6) if tier == "quick" else (12, 16)
    cases = []
    inputs = {}
    gtext = {}
    variants = []
    for n, (gid, g, tags) in enumerate(corpus(tier, seed)):
        variants.append((gid, g, tags, gid))
        # the same grammar with a user Layout rule (white space / line comments / nested comments)
        if "curated" in tags or n % 5 == 0:
            kind = G.LAYOUT_KINDS[(n + 1) % len(G.LAYOUT_KINDS)]
            variants.append(("%s+lay:%s" % (gid, kind), G.with_layout(g, kind), tags, gid))
    for gid, g, tags, base in variants:
        text = G.render(g)
        cid = "%s|%s" % (gid, "rn")
        nod = tab["nodis"].get("%s|pager" % base)
        if nod is None:
            continue
        lay = "+lay:" in gid
        rng = random.Random("%s-glr-%d" % (cid, seed))
        ins = []
        iid = 0
        for toks, kind in gen_inputs(g, rng, n_sent, n_mut):
            if len(toks) > 9:
                continue
            iid += 1
            if lay:
                # the plain rendering first, then the same tokens with layout in between (twin)
                t0, lex0 = G.render_input(g, toks, rng, seps=[" "], lead="", trail="")
                ins.append({"iid": iid, "text": t0, "lex": lex0, "partial": False,
                            "meta": {"kind": kind, "lat": False}})
                seps = G.layout_seps(g, rng, len(toks) + 2)
                text_in, lex = G.render_input(g, toks, rng, seps=seps[2:] or [" "], lead=seps[0], trail=seps[1])
                ins.append({"iid": iid, "text": text_in, "lex": lex, "partial": False,
                            "meta": {"kind": kind, "lat": False, "twin": "layout", "base": 1}})
            else:
                text_in, lex = G.render_input(g, toks, rng, lead=rng.choice(["", "", " ", "\n"]),
                                              trail=rng.choice(["", "", " ", "\n"]))
                ins.append({"iid": iid, "text": text_in, "lex": lex, "partial": False,
                            "meta": {"kind": kind, "lat": False}})
            inputs["%s#%d" % (cid, iid)] = [text_in, lex]
            # partial parse of the same text (what the full parse found must still be found)
            if iid % 2 == 1:
                ins.append({"iid": iid, "text": text_in, "lex": lex, "partial": True,
                            "meta": {"kind": kind, "lat": False, "twin": "partial", "base": 1}})
            # the same text through a user-style lexer that ignores the expected tokens
            elif not lay and iid % 4 == 0:
                ins.append({"iid": iid, "text": text_in, "lex": lex, "partial": False, "lexer": "any",
                            "meta": {"kind": kind, "lat": False, "anylex": True}})
        gtext[cid] = text
        cases.append({"id": cid, "grammar": text, "cfg": {"algo": "lr", "tt": "pager"},
                      "glr": {"algo": "glr"}, "max_trees": 150,
                      "meta": {"nodis": bool(nod), "plain": "meta" not in tags}, "inputs": ins})
        # the same inputs once more through ONE GlrParser object (parse() called repeatedly,
        # also after failed parses); Layout-rule grammars always, the others now and then
        if lay or len(cases) % 5 == 0:
            rid = "%s+reuse|rn" % gid
            seq = [dict(x, meta={k_: v_ for k_, v_ in x["meta"].items() if k_ not in ("twin", "base")})
                   for x in ins if not x["partial"] and x.get("lexer") != "any"]
            gtext[rid] = text
            for x in seq:
                inputs["%s#%d" % (rid, x["iid"])] = [x["text"], x["lex"]]
            if nod:
                # conflict-free: the LR parser reused over the same sequence next to it (C07)
                cases.append({"id": rid, "grammar": text, "cfg": {"algo": "lr", "tt": "pager"}, "glr": {"algo": "glr"},
                              "reuse": True, "max_trees": 150,
                              "meta": {"nodis": bool(nod), "plain": "meta" not in tags}, "inputs": seq})
            else:
                cases.append({"id": rid, "grammar": text, "cfg": {"algo": "glr"}, "reuse": True, "max_trees": 150,
                              "meta": {"nodis": bool(nod), "plain": "meta" not in tags}, "inputs": seq})
    # lexically ambiguous grammars, all lexical strategies off: the oracle works on the
    # token lattice the harness computes with its own matcher
    for gid, text, terms in lexamb_grammars(seed, 40 if tier == "quick" else 120):
        cid = "%s|rn" % gid
        rng = random.Random("%s-%d" % (cid, seed))
        ins = []
        for iid in range(1, (9 if tier == "quick" else 14)):
            n = rng.randint(1, 7)
            alpha = sorted({c for k, t in terms for c in t if c in "ab"}) or ["a"]
            word = "".join(rng.choice(alpha) for _ in range(n))
            if rng.random() < 0.4 and n > 2:
                k = rng.randint(1, n - 1)
                word = word[:k] + " " + word[k:]
            ins.append({"iid": iid, "text": word, "lex": [], "lat": lattice_of(terms, word), "partial": False,
                        "meta": {"kind": "lexamb", "lat": True}})
            inputs["%s#%d" % (cid, iid)] = [word, []]
        gtext[cid] = text
        cases.append({"id": cid, "grammar": text, "cfg": {"algo": "glr", "ms": False, "lm": False, "go": False},
                      "max_trees": 150, "meta": {"nodis": False, "plain": True}, "inputs": ins})
    pres = run.run_vdrive(work, "glr", cases)
    envs = [{"DUMPS": p + ".dumps.ndjson", "TRACES": p + ".traces.ndjson"} for p in pres
            if os.path.getsize(p + ".traces.ndjson") > 0]
    rs = run.run_tlc_shards(work, "TraceGLR", "TraceGLR.cfg", envs)
    verdicts = [v for r in rs for v in r["verdicts"]]
    return {"verdicts": verdicts, "gtext": gtext, "inputs": inputs,
            "divergences": (["GLRRuntime predicts %s, observed ok=%s n=%s amb=%s: %s #%s partial=%s" % (
                v["mon"]["opmodel"], v["mon"]["ok"], v["mon"]["n"], v["mon"].get("amb"), v["id"], v["iid"], v["partial"])
                for v in verdicts if v["mon"]["opdiv"]]
                + ["GLR partial parse: %s: %s #%s" % (json.dumps(v["mon"]["gp"]), v["id"], v["iid"])
                   for v in verdicts if v["mon"]["gp"]])[:20],
            "npartial": sum(1 for v in verdicts if v["partial"]),
            "nlayout_twins": sum(1 for v in verdicts if "+lay:" in v["id"]),
            "nmodel_runs": sum(1 for v in verdicts if v["mon"]["opmodel"]["k"] != "skip"),
            "states": sum(r["distinct"] for r in rs), "transitions": sum(r["states"] for r in rs),
            "ntraces": len(verdicts), "nok": sum(1 for v in verdicts if v["mon"]["ok"]),
            "nsent": sum(1 for v in verdicts if v["mon"]["sent"]),
            "nambiguous": sum(1 for v in verdicts if v["mon"]["n"] > 1),
            "nambiguities_bound": sum(1 for v in verdicts if v["mon"]["opmodel"]["k"] == "ok" and v["mon"].get("amb", 0) > 0),
            "ninscope": sum(1 for v in verdicts if v["mon"]["inscope"]),
            "nlrglr": sum(1 for v in verdicts if v["mon"]["lrran"]),
            "ncases": len(cases),
            "samples": [dict(id=v["id"], iid=v["iid"], input=inputs.get("%s#%d" % (v["id"], v["iid"]), [""])[0],
                             ok=v["mon"]["ok"], solutions=v["mon"]["n"], oracle_trees=v["mon"]["nexp"])
                        for v in verdicts[:60:12]]}



def gadget_grammars(seed, n):
    """Grammars built to put given candidate sets into one cell: binary operators,
    dangling else, empty-vs-shift, reduce/reduce, three-way; with seeded meta-data."""
    rng = random.Random(seed * 31 + 5)
    out = []
    assoc = ["", "left", "right"]
    prios = ["", "5", "20"]

    def m(*parts):
        return ", ".join(x for x in parts if x)
    for i in range(n):
        k = i % 9
        a1, a2, p1, p2 = rng.choice(assoc), rng.choice(assoc), rng.choice(prios), rng.choice(prios)
        ta = rng.choice([None, None, "left", "right"])
        nops = rng.choice(["", "", "nops"])
        nopse = rng.choice(["", "", "nopse"])
        if k == 0:
            g = G.G("E: E Tp E {%s} | E Tm E {%s} | Tn" % (m(a1, p1), m(a2, p2)), tmeta={"p": (None, ta)})
        elif k == 1:
            g = G.G("S: Ti S {%s} | Ti S Te S {%s} | Tx" % (m(a1, p1, nops), m(a2, p2)), tmeta={"e": (None, ta)})
        elif k == 2:
            g = G.G("S: A Ta {%s}; A: Ta {%s} | {%s}" % (m(p2), m(a1, p1), m(nopse, p1 if rng.random() < .5 else "")),
                    tmeta={"a": (None, ta)})
        elif k == 3:
            g = G.G("S: A Ta | B Ta; A: Tb {%s}; B: Tb {%s}" % (m(p1, a1), m(p2, a2)))
        elif k == 4:
            g = G.G("S: A Tt | B Tt | C; A: Ta {%s}; B: Ta {%s}; C: Ta Tt {%s}" % (m(p1, a1), m(p2, a2), m(rng.choice(prios))),
                    tmeta={"t": (None, ta)})
        elif k == 5:
            g = G.G("S: A Tc | B Tc | Tb Tc Td {%s}; A: Tb {%s} | {%s}; B: Tb {%s} | " % (
                m(rng.choice(prios)), m(p1, a1), m(nopse), m(p2, a2)))
        # reduce/reduce between productions of DIFFERENT length (one a suffix of the other)
        elif k == 6:
            g = G.G("S: X | Ta X; X: Ta Tb {%s} | Tb {%s}" % (m(p1, a1), m(p2, a2)))
        elif k == 7:
            g = G.G("S: A Tc | Ta B Tc; A: Ta Tb {%s}; B: Tb {%s}" % (m(p1, a1), m(p2, a2)))
        else:
            g = G.G("S: Ta X Tc | A Tc; A: Ta Tb Tb {%s} | Ta Tb {%s}; X: Tb Tb {%s} | Tb {%s}" % (
                m(p1), m(p2), m(rng.choice(prios)), m(rng.choice(prios))))
        # rule-level meta-data on top (inherited by every production that does not give the
        # same piece itself): drawn from its own generator so that the gadgets stay the same
        r2 = random.Random(seed * 77 + i)
        for name, _alts in g["rules"]:
            if r2.random() < 0.4:
                rm = m(r2.choice(assoc), r2.choice(prios), r2.choice(["", "", "nops"]), r2.choice(["", "", "nopse"]))
                if rm:
                    g.setdefault("rule_meta", {})[name] = rm
        out.append(("gad:%d:%d" % (seed, i), g, {"meta", "gadget"}))
    return out


def meta_fields(text):
    """'left, 5, nops' -> the four pieces of disambiguation meta-data as Builder.Own reads them."""
    d = {"prio": -1, "assoc": "", "nops": False, "nopse": False, "kind": ""}
    for part in (text or "").split(","):
        part = part.strip()
        if part in ("left", "reduce"):
            d["assoc"] = "left"
        elif part in ("right", "shift"):
            d["assoc"] = "right"
        elif part.isdigit():
            d["prio"] = int(part)
        elif part in ("nops", "nopse"):
            d[part] = True
    return d


def written_meta(g):
    """Per alternative: [rule name, alternative number, rule-level meta-data, its own meta-data]."""
    return [[name, k + 1, meta_fields(g.get("rule_meta", {}).get(name)), meta_fields(a.get("meta"))]
            for name, alts in g["rules"] for k, a in enumerate(alts)]


def stage_resolve(work, tier, seed):
    """C05 part (a): per (grammar, settings) a raw dump and the resolved dump; TLC
    judges every cell with ResolveDoc.CellHolds.  Compiler aborts are data."""
    ngad = 120 if tier == "quick" else 1500
    gs = [(gid, g, tags) for gid, g, tags in corpus(tier, seed) if "meta" in tags or "curated" in tags]
    gs += gadget_grammars(seed, ngad)
    cases = []
    gtext = {}
    combos = [("lr", "pager", False, True), ("lr", "lalr", True, True), ("lr", "pager", False, False),
              ("lr", "lalr", True, False), ("glr", "rn", False, False), ("glr", "rn", True, True)]
    for n, (gid, g, tags) in enumerate(gs):
        text = G.render(g)
        use = combos if ("gadget" in tags or "annotated" in tags or tier == "thorough") else \
            [combos[n % 4], combos[4 + n % 2]]
        for algo, tt, ps, pse in use:
            cid = "%s|%s/%s/ps%d/pse%d" % (gid, algo, tt, ps, pse)
            gtext[cid] = text
            cases.append({"id": cid, "grammar": text,
                          "cfg": {"algo": "glr", "tt": tt, "raw": True, "ps": False, "pse": False},
                          "glr": dict({"algo": algo, "tt": tt, "ps": ps, "pse": pse,
                                       "go": True if algo == "lr" else False},
                                      # every other LR case: parser_algo(LR) called last, after the
                                      # preferences (the order rcomp uses); it changes nothing else
                                      **({"lr_last": True} if algo == "lr" and (n + ps + pse) % 2 == 0 else {})),
                          "meta": {"nodis": False, "plain": False, "pm": written_meta(g)}})
    pres = run.run_vdrive(work, "resolve", cases)
    rs = table_shards(work, "resolve", pres, "full", module="CheckResolve")
    verdicts = [v for r in rs for v in r["verdicts"]]
    errs = [e for pre in pres for e in run.read_ndjson(pre + ".errs.ndjson")]
    for v in verdicts:
        v["bad"] = v["bad"][:4]
    return {"verdicts": verdicts, "gtext": gtext,
            "errs": [dict(id=e["id"], cls=e["class"], msg=e["msg"][:300], cfg=e["cfg"]) for e in errs],
            "states": sum(r["distinct"] for r in rs), "transitions": sum(r["states"] for r in rs),
            "ncases": len(cases), "ndumps": len(verdicts),
            "ncells_exercised": sum(v["exercised"] for v in verdicts),
            "samples": [dict(id=v["id"], exercised_cells=v["exercised"], conflicts_left=v["nconf"])
                        for v in verdicts if v["exercised"]][:3]}


def op_grammars(tier, seed):
    """Expression grammars with 2-3 binary operators and every assignment of
    distinct priorities / associativities (same priority => same associativity)."""
    import itertools
    out = []
    ops = ["p", "m", "q"]
    for nops in (2, 3):
        for prios in itertools.product([1, 2, 3], repeat=nops):
            for assocs in itertools.product(["left", "right"], repeat=nops):
                if any(prios[i] == prios[j] and assocs[i] != assocs[j]
                       for i in range(nops) for j in range(nops)):
                    continue
                alts = " | ".join("E T%s E {%s, %d}" % (ops[i], assocs[i], prios[i]) for i in range(nops))
                g = G.G("E: %s | Tn" % alts)
                names = [t[0] for t in g["terms"]]
                optab = [[names.index("T" + ops[i]) + 1, prios[i], assocs[i], i + 1] for i in range(nops)]
                out.append(("op:%s:%s" % ("".join(map(str, prios)), "".join(a[0] for a in assocs)), g, optab))
    if tier == "quick":
        rng = random.Random(seed)
        out = rng.sample(out, 40)
    return out


def stage_prec(work, tier, seed):
    """C05 part (b): real LR parses of operator strings vs Prec.PrecTree."""
    import itertools
    cases = []
    inputs = {}
    gtext = {}
    maxops = 3 if tier == "quick" else 4
    for gid, g, optab in op_grammars(tier, seed):
        text = G.render(g)
        cid = gid + "|pager"
        gtext[cid] = text
        opnames = ["T" + x for x in "pmq"[:len(optab)]]
        ins = []
        iid = 0
        for k in range(1, maxops + 1):
            for combo in itertools.product(opnames, repeat=k):
                toks = ["Tn"]
                for o in combo:
                    toks += [o, "Tn"]
                iid += 1
                text_in, lex = G.render_input(g, toks, None)
                ins.append({"iid": iid, "text": text_in, "lex": lex, "partial": False, "meta": {"ops": optab}})
                inputs["%s#%d" % (cid, iid)] = [text_in, lex]
        cases.append({"id": cid, "grammar": text, "cfg": {"algo": "lr", "tt": "pager"},
                      "meta": {"nodis": False, "plain": False}, "inputs": ins})
    pres = run.run_vdrive(work, "prec", cases)
    envs = [{"TRACES": p + ".traces.ndjson"} for p in pres if os.path.getsize(p + ".traces.ndjson") > 0]
    rs = run.run_tlc_shards(work, "CheckPrec", "CheckPrec.cfg", envs)
    verdicts = [v for r in rs for v in r["verdicts"]]
    errs = [e for pre in pres for e in run.read_ndjson(pre + ".errs.ndjson")]
    nconf = sum(1 for pre in pres for d in run.read_ndjson(pre + ".dumps.ndjson") if d["t"]["nconflicts"] > 0)
    return {"verdicts": verdicts, "gtext": gtext, "inputs": inputs, "ngrammars_with_conflicts": nconf,
            "errs": [dict(id=e["id"], cls=e["class"], msg=e["msg"][:300], cfg=e["cfg"]) for e in errs],
            "states": sum(r["distinct"] for r in rs), "transitions": sum(r["states"] for r in rs),
            "ncases": len(cases), "ntraces": len(verdicts),
            "samples": [dict(id=v["id"], input=inputs["%s#%d" % (v["id"], v["iid"])][0]) for v in verdicts[:50:17]]}



LEX_STRS = ["a", "ab", "abc", "b", "a1", "ba", "aa"]
LEX_RES = ["a+", "[ab]+", "ab?", "a|ab", "[a-c]+", "\\w+", "[a-c1]+", "b+", "a[b1]*", "ab|a", "aa?",
           "ab", "a", "abc", "aa"]   # the last four: regexes that are plain literals
LEX_WINDOWS = ["a", "ab", "abc", "aab", "a1", "ba", "b", "abab", "aa", "c", "abc1", "1a", "ab1", "aaa", "bab", "x"]


def lex_sets(seed, n):
    """Seeded sets of 2-4 terminals from the recogniser family with priorities
    {5,10,20} in a seeded grammar order."""
    import re
    out = []
    for i in range(n):
        rng = random.Random("lex-%d-%d" % (seed, i))
        k = rng.randint(2, 4)
        terms = []
        used = set()
        while len(terms) < k:
            if rng.random() < 0.5:
                kind, text = "str", rng.choice(LEX_STRS)
            else:
                kind, text = "re", rng.choice(LEX_RES)
            if (kind, text) in used:
                continue
            used.add((kind, text))
            prio = rng.choice([None, None, 5, 20])
            terms.append(["L%d" % len(terms), kind, text, "", prio, None])
        g = {"rules": [["S", [{"rhs": [t[0]], "meta": ""} for t in terms]]], "terms": terms}
        out.append(("lex:%d:%d" % (seed, i), g))
    return out


def lex_match_table(g, window):
    import re
    lat = []
    for i, t in enumerate(g["terms"]):
        if t[1] == "str":
            if window.startswith(t[2]):
                lat.append([i + 1, len(t[2].encode())])
        else:
            m = re.match(t[2], window)
            if m and m.end() > 0:
                lat.append([i + 1, len(m.group(0).encode())])
    return lat


def stage_lex(work, tier, seed):
    """C06 (I -> S): real StringLexer + parsers on single-token grammars."""
    nsets = 150 if tier == "quick" else 1200
    cases = []
    gtext = {}
    inputs = {}
    for gid, g in lex_sets(seed, nsets):
        text = G.render(g)
        rng = random.Random("lexw-%s" % gid)
        wins = rng.sample(LEX_WINDOWS, 8 if tier == "quick" else 14)
        ins = []
        for iid, w in enumerate(wins, 1):
            lead = rng.choice(["", "", " "])
            ins.append({"iid": iid, "text": lead + w, "lex": [], "lat": lex_match_table(g, w), "partial": True,
                        "meta": {}})
        combos = []
        for ms in (True, False):
            for lm in (True, False):
                combos.append(("lr", ms, lm, True))
                combos.append(("glr", ms, lm, False))
                if tier == "thorough" or (ms, lm) in ((True, True), (False, False)):
                    combos.append(("glr", ms, lm, True))
        for algo, ms, lm, go in combos:
            cid = "%s|%s/ms%d/lm%d/go%d" % (gid, algo, ms, lm, go)
            gtext[cid] = text
            for x in ins:
                inputs["%s#%d" % (cid, x["iid"])] = [x["text"], x["lat"]]
            cfg = {"algo": algo, "ms": ms, "lm": lm, "go": go, "partial": True}
            case = {"id": cid, "grammar": text, "cfg": cfg, "meta": {"nodis": False, "plain": True},
                    "inputs": ins, "max_trees": 10}
            if algo == "lr":
                # the GLR parser with the same strategies and grammar order on, for C07
                case["glr"] = {"algo": "glr", "ms": ms, "lm": lm, "go": True, "partial": True}
            cases.append(case)
    # context grammars: the overlapping terminals follow a reduction in different left contexts
    for n_, (gid, g) in enumerate(lex_sets(seed + 1000, 40 if tier == "quick" else 300)):
        lts = g["terms"]
        k_ = len(lts)
        terms = [["P%d" % j, "str", str(j), "", None, None] for j in range(k_)] + [["X", "str", "=", "", None, None]] + lts
        g2 = {"rules": [["S", [{"rhs": ["P%d" % j, "A", lts[j][0]], "meta": ""} for j in range(k_)]],
                        ["A", [{"rhs": ["X"], "meta": ""}]]], "terms": terms}
        text = G.render(g2)
        rng = random.Random("lexctx-%s" % gid)
        ins = []
        iid = 0
        for w in rng.sample(LEX_WINDOWS, 5 if tier == "quick" else 10):
            for j in range(k_):
                iid += 1
                ins.append({"iid": iid, "text": "%d = %s" % (j, w), "lex": [], "lat": lex_match_table(g2, w),
                            "partial": True, "meta": {"ctx": True, "path": [j + 1, k_ + 1], "li": k_ + 2 + j}})
        for ms in (True, False):
            for lm in (True, False):
                cid = "%s+ctx|lr/ms%d/lm%d/go1" % (gid, ms, lm)
                gtext[cid] = text
                for x in ins:
                    inputs["%s#%d" % (cid, x["iid"])] = [x["text"], x["lat"]]
                cases.append({"id": cid, "grammar": text, "cfg": {"algo": "lr", "ms": ms, "lm": lm, "go": True, "partial": True},
                              "meta": {"nodis": False, "plain": True}, "inputs": ins, "max_trees": 10})
    pres = run.run_vdrive(work, "lex", cases)
    envs = [{"DUMPS": p + ".dumps.ndjson", "TRACES": p + ".traces.ndjson"} for p in pres
            if os.path.getsize(p + ".traces.ndjson") > 0]
    rs = run.run_tlc_shards(work, "CheckLex", "CheckLex.cfg", envs)
    verdicts = [v for r in rs for v in r["verdicts"]]
    errs = [e for pre in pres for e in run.read_ndjson(pre + ".errs.ndjson")]
    # design-level: LexOrder vs LexDoc, exhaustive small scope (MC_Lex)
    mc = run.run_tlc(work, "MC_Lex", "MC_Lex.cfg", {}, workers=run.NCPU, timeout=1200)
    return {"verdicts": [v for v in verdicts if v["bad"] or v["sort_div"] or v["c07"]][:400], "gtext": gtext, "inputs": inputs,
            "npairs": sum(1 for v in verdicts if v["algo"] == "lr"),
            "errs": [dict(id=e["id"], cls=e["class"], msg=e["msg"][:200]) for e in errs][:50],
            "divergences": ["sort order differs: %s" % v["id"] for v in verdicts if v["sort_div"]][:10],
            "states": sum(r["distinct"] for r in rs) + mc["distinct"],
            "transitions": sum(r["states"] for r in rs) + mc["states"],
            "mc_lex_configurations": mc["distinct"], "mc_lex_ok": "No error has been found" in mc["out"],
            "ncases": len(cases), "ntraces": len(verdicts),
            "nambiguous": sum(1 for v in verdicts if v["nmatch"] > 1),
            "nmulti_survivors": sum(1 for v in verdicts if v["nsurv"] > 1),
            "samples": [dict(id=v["id"], iid=v["iid"], matching=v["nmatch"], survivors=v["nsurv"],
                             input=inputs.get("%s#%d" % (v["id"], v["iid"]), [""])[0],
                             grammar=gtext[v["id"]]) for v in verdicts if v["nmatch"] > 1][:3]}



FINE_DOC = dict(syntax=True, idents=True, terminals=True, symbols=True, selfrec=True, recognizers=True,
                productive=True, conflicts=True)
BASE_DOC = "S: A Tb | Tc;\nA: Ta A | Ta;\nterminals\nTa: 'a';\nTb: 'b';\nTc: /c+/;\n"


def pipeline_docs(tier, seed):
    """(id, text, doc attributes or None) -- documents with one injected defect
    (attributes known by construction), every construct the grammar language accepts,
    and seeded byte/token mutations of repository grammars (attributes unknown)."""
    docs = []

    def known(name, text, **defect):
        d = dict(FINE_DOC)
        d.update(defect)
        docs.append(("inj:" + name, text, d))

    known("fine", BASE_DOC)
    known("syntax1", BASE_DOC.replace("A Tb | Tc;", "A Tb | Tc"), syntax=False)
    known("syntax2", BASE_DOC.replace("A: Ta A", "A: : Ta A"), syntax=False)
    known("syntax3", BASE_DOC.replace("terminals", "terminalz"), syntax=False)
    known("syntax4", "S: 'a\n;\nterminals\nTa: 'a';\n", syntax=False)
    known("ident1", BASE_DOC.replace("A", "fn"), idents=False)
    known("ident2", BASE_DOC.replace("Tb", "struct"), idents=False)
    known("terminal1", BASE_DOC.replace("A Tb", "A 'x'"), terminals=False)
    known("terminal2", BASE_DOC.replace("A Tb", "A 'x'+"), terminals=False)
    known("symbol1", BASE_DOC.replace("A Tb", "A Zz"), symbols=False)
    known("symbol2", BASE_DOC.replace("Ta A | Ta", "Ta Q | Ta"), symbols=False)
    known("selfrec", "S: A Ta;\nA: A;\nterminals\nTa: 'a';\n", selfrec=False)
    known("recognizer", "S: Ta Tb;\nterminals\nTa: 'a';\nTb: ;\n", recognizers=False)
    known("unproductive1", "S: A Ta;\nA: B;\nB: A;\nterminals\nTa: 'a';\n", productive=False)
    known("unproductive2", "S: S Ta;\nterminals\nTa: 'a';\n", productive=False)
    known("conflict_sr", "E: E Tp E | Tn;\nterminals\nTp: '+';\nTn: 'n';\n", conflicts=False)
    known("conflict_rr", "S: A Ta | B Ta;\nA: Tb;\nB: Tb;\nterminals\nTa: 'a';\nTb: 'b';\n", conflicts=False)
    known("conflict_accept", "S: S S | Ta | EMPTY;\nterminals\nTa: 'a';\n", conflicts=False)
    known("conflict_three", "S: A Tt | B Tt | C;\nA: Ta;\nB: Ta;\nC: Ta Tt;\nterminals\nTa: 'a';\nTt: 't';\n",
          conflicts=False)
    # constructs the grammar language accepts (documented syntax): outcome must be ok or err
    constructs = {
        "greedy_star": "S: Ta*!;\nterminals\nTa: 'a';\n",
        "greedy_plus": "S: Ta+! Tb;\nterminals\nTa: 'a';\nTb: 'b';\n",
        "greedy_opt": "S: Ta?! Tb;\nterminals\nTa: 'a';\nTb: 'b';\n",
        "group": "S: (Ta Tb)+ Tb;\nterminals\nTa: 'a';\nTb: 'b';\n",
        "group_alt": "S: (Ta | Tb) Tb;\nterminals\nTa: 'a';\nTb: 'b';\n",
        "two_modifiers": "S: Ta+[Tb, Tc];\nterminals\nTa: 'a';\nTb: 'b';\nTc: 'c';\n",
        "terminals_only": "terminals\nTa: 'a';\n",
        "imports_only": "import 'other.rustemo';\n",
        "import_and_rule": "import 'other.rustemo' as o;\nS: Ta;\nterminals\nTa: 'a';\n",
        "empty_file": "",
        "comment_only": "// nothing\n",
        "huge_prio": "S: Ta {99999999999};\nterminals\nTa: 'a';\n",
        "huge_term_prio": "S: Ta;\nterminals\nTa: 'a' {99999999999};\n",
        "prio_100": "S: Ta;\nterminals\nTa: 'a' {100};\n",
        "rule_named_empty": "S: Ta EMPTY;\nEMPTY: Ta;\nterminals\nTa: 'a';\n",
        "rule_named_stop": "S: STOP Ta;\nSTOP: Ta;\nterminals\nTa: 'a';\n",
        "rule_named_aug": "S: AUG;\nAUG: Ta;\nterminals\nTa: 'a';\n",
        "term_named_stop": "S: Ta;\nterminals\nTa: 'a';\nSTOP: 'x';\n",
        "layout_lower": "S: Ta;\nlayout: Tb*;\nterminals\nTa: 'a';\nTb: 'b';\n",
        "layout_only_ref": "S: Ta Layout;\nLayout: Tb;\nterminals\nTa: 'a';\nTb: 'b';\n",
        "dup_rule": "S: Ta;\nS: Tb;\nterminals\nTa: 'a';\nTb: 'b';\n",
        "dup_terminal": "S: Ta;\nterminals\nTa: 'a';\nTa: 'b';\n",
        "dup_terminal_str": "S: Ta Tb;\nterminals\nTa: 'a';\nTb: 'a';\n",
        "same_name_term_rule": "S: A;\nA: Ta;\nterminals\nTa: 'a';\nA: 'x';\n",
        "sugar_on_str": "S: 'a'* 'b'?;\nterminals\nTa: 'a';\nTb: 'b';\n",
        "sep_undefined": "S: Ta+[Zz];\nterminals\nTa: 'a';\n",
        "sep_string": "S: Ta+[','];\nterminals\nTa: 'a';\nComma: ',';\n",
        "named_assign": "S: a=Ta b?=Tb c=Ta*;\nterminals\nTa: 'a';\nTb: 'b';\n",
        "named_assign_kw": "S: fn=Ta;\nterminals\nTa: 'a';\n",
        "annotation": "@vec\nS: S Ta | Ta;\nterminals\nTa: 'a';\n",
        "annotation_unknown": "@nothing\nS: Ta;\nterminals\nTa: 'a';\n",
        "user_meta": "S {x: 5, y: 'z', z: 1.5, w: true}: Ta {q: 1};\nterminals\nTa: 'a' {r: 3};\n",
        "dynamic": "S: Ta {dynamic};\nterminals\nTa: 'a' {dynamic};\n",
        "kind": "S: Ta {Aa} | Tb {Aa};\nterminals\nTa: 'a';\nTb: 'b';\n",
        "regex_bad": "S: Ta;\nterminals\nTa: /(/;\n",
        "regex_empty_match": "S: Ta* Tb;\nterminals\nTa: /a*/;\nTb: 'b';\n",
        "unreachable_rule": "S: Ta;\nU: Tb;\nterminals\nTa: 'a';\nTb: 'b';\n",
        "unused_terminal": "S: Ta;\nterminals\nTa: 'a';\nTb: 'b';\n",
        "start_is_terminal_ref": "S: Ta;\nterminals\nTa: 'a';\n",
        "only_empty": "S: EMPTY;\n",
        "empty_twice": "S: EMPTY | EMPTY;\n",
        "opt_of_nullable": "S: A? Ta;\nA: Tb | EMPTY;\nterminals\nTa: 'a';\nTb: 'b';\n",
        "star_of_nullable": "S: A* Ta;\nA: Tb | EMPTY;\nterminals\nTa: 'a';\nTb: 'b';\n",
        "deep_sugar": "S: A+[Tc]? B*;\nA: Ta;\nB: Tb;\nterminals\nTa: 'a';\nTb: 'b';\nTc: 'c';\n",
        "unicode_names": "S: Tä;\nterminals\nTä: 'ä';\n",
        "crlf": "S: Ta;\r\nterminals\r\nTa: 'a';\r\n",
        "block_comment": "/* c /* nested */ */ S: Ta; // x\nterminals\nTa: 'a';\n",
        # references to the implicit symbols
        "stop_ref": "S: A STOP | A;\nA: Ta;\nterminals\nTa: 'a';\n",
        "stop_ref_plus": "S: STOP+;\nterminals\nTa: 'a';\n",
        "aug_ref": "S: Ta AUG;\nterminals\nTa: 'a';\n",
        "aug_ref_opt_sep": "S: Tc AUG?[Ta] S | Tc;\nterminals\nTa: 'a';\nTc: 'c';\n",
        "augl_ref": "S: Ta AUGL?;\nterminals\nTa: 'a';\n",
        "empty_ref_plus": "S: Ta EMPTY+;\nterminals\nTa: 'a';\n",
        # rules named like the implicit symbols that nothing refers to
        "aug_rule_unreferenced": "S: Ta;\nAUG: Ta;\nterminals\nTa: 'a';\n",
        "augl_rule_with_layout": "S: Ta;\nLayout: Tb*;\nAUGL: Ta;\nterminals\nTa: 'a';\nTb: 'b';\n",
        "augl_rule_no_layout": "S: Ta;\nAUGL: Ta;\nterminals\nTa: 'a';\n",
        "empty_rule_unreferenced": "S: Ta;\nEMPTY: Ta;\nterminals\nTa: 'a';\n",
        "stop_rule_unreferenced": "S: Ta;\nSTOP: Ta;\nterminals\nTa: 'a';\n",
        "aug_rule_two_parts": "AUG: Ta;\nS: Ta;\nAUG: Tb;\nterminals\nTa: 'a';\nTb: 'b';\n",
        # terminals without a recogniser that the start rule does not reach
        "norec_unused": "S: Ta;\nterminals\nTa: 'a';\nSpare: ;\n",
        "norec_unreachable_rule": "S: Ta;\nU: Spare Ta;\nterminals\nTa: 'a';\nSpare: ;\n",
        "norec_layout_only": "S: Ta;\nLayout: Ws*;\nterminals\nTa: 'a';\nWs: ;\n",
        "norec_used_and_unused": "S: Ta Tb;\nterminals\nTa: 'a';\nTb: ;\nSpare: ;\n",
        "assign_empty": "S: x=EMPTY Ta | Tb;\nterminals\nTa: 'a';\nTb: 'b';\n",
        "bool_assign_empty": "S: x?=EMPTY | Ta S;\nterminals\nTa: 'a';\n",
        # production kinds that are not Rust identifiers
        "kind_dot": "S: Ta {a.b} | Tb;\nterminals\nTa: 'a';\nTb: 'b';\n",
        "kind_keyword": "S: Ta {fn} | Tb;\nterminals\nTa: 'a';\nTb: 'b';\n",
        "kind_meta_space": "S: Ta {kind: \"x y\"} | Tb;\nterminals\nTa: 'a';\nTb: 'b';\n",
        "kind_meta_int": "S: Ta {kind: 5} | Tb;\nterminals\nTa: 'a';\nTb: 'b';\n",
        "kind_rule_level": "S {a.b}: Ta | Tb;\nterminals\nTa: 'a';\nTb: 'b';\n",
        # user rules named like the helper rules of the regex-like operators
        "helper_name_before": "A1: A+ Tb;\nA: Ta;\nterminals\nTa: 'a';\nTb: 'b';\n",
        "helper_name_before2": "S: A1 A+;\nA1: Tb;\nA: Ta;\nterminals\nTa: 'a';\nTb: 'b';\n",
        "helper_name_after": "S: A+ A1;\nA: Ta;\nA1: Tb;\nterminals\nTa: 'a';\nTb: 'b';\n",
        "helper_name_opt": "S: A? AOpt;\nA: Ta;\nAOpt: Tb;\nterminals\nTa: 'a';\nTb: 'b';\n",
        "helper_name_zero": "S: A0 A*;\nA0: Tb;\nA: Ta;\nterminals\nTa: 'a';\nTb: 'b';\n",
        "helper_name_term": "S: Ta+ Tb;\nterminals\nTa: 'a';\nTb: 'b';\nTa1: 'c';\n",
        # every order of two operators on one symbol
        "plus_then_star": "S: A+ Tb A*;\nA: Ta;\nterminals\nTa: 'a';\nTb: 'b';\n",
        "star_then_plus": "S: A* Tb A+;\nA: Ta;\nterminals\nTa: 'a';\nTb: 'b';\n",
        "opt_then_plus": "S: A? Tb A+;\nA: Ta;\nterminals\nTa: 'a';\nTb: 'b';\n",
        "plus_then_opt_star": "S: A+ Tb A? Tb A*;\nA: Ta;\nterminals\nTa: 'a';\nTb: 'b';\n",
        "sep_then_plain": "S: A+[Tb] Tc A+ Tc A*[Tb];\nA: Ta;\nterminals\nTa: 'a';\nTb: 'b';\nTc: 'c';\n",
    }
    shapes = {
        "sep_regex_plus": "S: Num+[Sep];\nterminals\nNum: /\\d+/;\nSep: /[,;]/;\n",
        "sep_regex_star": "S: Num*[Sep] Te;\nterminals\nNum: /\\d+/;\nSep: /[,;]/;\nTe: 'e';\n",
        "sep_nonterm": "S: Num+[Sp];\nSp: Ta | Tb;\nterminals\nNum: /\\d+/;\nTa: 'a';\nTb: 'b';\n",
        "vec_three": "@vec\nL: L Sep Num | Num;\nterminals\nNum: /\\d+/;\nSep: /[,;]/;\n",
        "vec_right": "@vec\nL: Num L | Num;\nterminals\nNum: /\\d+/;\n",
        "vec_empty": "S: Ta L;\n@vec\nL: L Num | Num | EMPTY;\nterminals\nTa: 'a';\nNum: /\\d+/;\n",
        "opt_struct": "S: Ta At;\nAt: Tc Num Num | EMPTY;\nterminals\nTa: 'a';\nTc: ':';\nNum: /\\d+/;\n",
        "rec_struct": "E: l=E Tp r=E {left} | Num;\nterminals\nTp: '+';\nNum: /\\d+/;\n",
        "rec_ref": "A: B;\nB: Tl A Tr | Num;\nterminals\nTl: '(';\nTr: ')';\nNum: /\\d+/;\n",
        "bool_assign": "S: a?=Ta b=Num c?=Num;\nterminals\nTa: 'a';\nNum: /\\d+/;\n",
        "same_kind": "E: Ta {A} | Tb {A} | Tc {A1} | Td {A1};\nterminals\nTa: /a/;\nTb: /b/;\nTc: /c/;\nTd: /d/;\n",
        "rule_like_choice": "E: Num {Add} | Add;\nAdd: Ta;\nterminals\nNum: /\\d+/;\nTa: /a/;\n",
        "all_const": "S: Ta Tb | Tb;\nterminals\nTa: 'a';\nTb: 'b';\n",
        "nested_sugar": "S: A*;\nA: Num? Ta+;\nterminals\nNum: /\\d+/;\nTa: 'a';\n",
    }
    for k, t in constructs.items():
        docs.append(("con:" + k, t, None))
    for k, t in shapes.items():
        docs.append(("con:shape_" + k, t, None))
    # mutations of repository grammars
    rng = random.Random(seed * 101 + 3)
    repo = repo_grammars("thorough")
    nmut = 150 if tier == "quick" else 1500
    toks = [";", ":", "|", "{", "}", "'", "/", "EMPTY", "terminals", "*", "+", "?", "[", "]", "(", ")", "=",
            "@", ",", "left", "1", "99999999999", "\\", "\"", "//", "/*", "é", "\x00", "!"]
    for i in range(nmut):
        path, text = rng.choice(repo)
        if len(text) > 3000:
            continue
        b = text
        for _ in range(rng.randint(1, 3)):
            op = rng.choice(["del", "ins", "dup", "swap", "trunc"])
            if not b:
                break
            pos = rng.randrange(len(b))
            if op == "del":
                b = b[:pos] + b[pos + rng.randint(1, 6):]
            elif op == "ins":
                b = b[:pos] + rng.choice(toks) + b[pos:]
            elif op == "dup":
                j = min(len(b), pos + rng.randint(1, 30))
                b = b[:j] + b[pos:j] + b[j:]
            elif op == "swap":
                j = min(len(b), pos + rng.randint(2, 20))
                b = b[:pos] + b[pos:j][::-1] + b[j:]
            else:
                b = b[:pos]
        docs.append(("mut:%d:%s" % (i, os.path.basename(path)), b, None))
    # random syntactically valid documents of the grammar language (every construct of
    # lang/rustemo.rustemo; names from pools with the compiler's own names in them)
    rng = random.Random(seed * 211 + 7)
    for i in range(600 if tier == "quick" else 6000):
        docs.append(("gen:%d" % i, G.docgen(rng), None))
    return docs


def run_batch(work, name, reqs):
    """vhist batch over the requests, sharded; restarts after a request that killed the
    process (recorded as crash) or did not return within the watchdog time (hang)."""
    import subprocess
    from concurrent.futures import ThreadPoolExecutor
    shards = [reqs[i::run.NCPU] for i in range(run.NCPU)]

    def one(k):
        if not shards[k]:
            return []
        cp = work.path(name, "req%d.ndjson" % k)
        op = work.path(name, "res%d.ndjson" % k)
        out = []
        todo = list(shards[k])
        while todo:
            with open(cp, "w") as f:
                for r in todo:
                    f.write(json.dumps(r) + "\n")
            r = subprocess.run("ulimit -v 8000000; exec %s batch %s %s" % (run.vhist_bin(), cp, op), shell=True,
                               executable="/bin/bash", capture_output=True, text=True, env=run.clean_env(),
                               timeout=3000)
            got = run.read_ndjson(op) if os.path.exists(op) else []
            out += got
            if r.returncode == 0:
                break
            try:
                ci = int(open(op + ".progress").read())
            except Exception:
                raise run.ToolError("vhist batch failed: " + r.stderr[-300:])
            if r.returncode == 3 and got and got[-1].get("outcome") == "hang":
                pass  # the compiler did not return within the timeout: recorded by vhist
            else:
                # the process died (stack overflow / abort): the case in progress is a crash
                out.append({"id": todo[ci]["id"], "outcome": "crash", "class": "crash",
                            "msg": "process exit %d: %s" % (r.returncode, r.stderr[-200:])})
            todo = todo[ci + 1:]
        return out
    with ThreadPoolExecutor(max_workers=run.NCPU) as ex:
        return [x for part in ex.map(one, range(run.NCPU)) for x in part]


def stage_pipeline(work, tier, seed):
    """C16: Settings::process_grammar (catch_unwind) and the rcomp binary on
    generated documents; outcomes judged by CheckPipeline against Pipeline.Predict."""
    import subprocess
    docs = pipeline_docs(tier, seed)
    combos = [dict(algo="lr", tt="pager"), dict(algo="glr"), dict(algo="lr", tt="lalr", ps=True),
              dict(algo="lr", tt="rn", pse=False), dict(algo="glr", ps=True, pse=True),
              dict(algo="lr", tt="pager", lexer="custom", builder="generic"),
              dict(algo="lr", tt="pager", builder="default"), dict(algo="glr", builder="default", loc_info=True)]
    reqs = []
    meta = {}
    gdir = work.path("pipeline", "g", "x")
    gdir = os.path.dirname(gdir)
    for n, (did, text, attrs) in enumerate(docs):
        use = (combos if attrs is not None or did.startswith("con:")
               else [combos[n % len(combos)]] if did.startswith("gen:") else [combos[n % 2]])
        for ci, st in enumerate(use):
            d = os.path.join(gdir, "d%d_%d" % (n, ci))
            os.makedirs(d, exist_ok=True)
            gp = os.path.join(d, "g.rustemo")
            with open(gp, "w", encoding="utf-8", errors="surrogatepass") as f:
                f.write(text)
            rid = "%s|%s" % (did, "/".join("%s=%s" % kv for kv in sorted(st.items())))
            reqs.append({"id": rid, "grammar_path": gp, "settings": dict(st, builder=st.get("builder", "generic")),
                         "out_dir": os.path.join(d, "out"), "out_dir_actions": os.path.join(d, "out")})
            a = attrs
            # shift preference resolves shift/reduce conflicts: attribute unknown there
            if attrs is not None and not attrs["conflicts"] and st.get("ps") and did != "inj:conflict_rr":
                a = None
            meta[rid] = dict(text=text, attrs=a, algo=st["algo"], lexer=st.get("lexer", "default"), dir=d,
                             st=st)
    # API runs, sharded
    from concurrent.futures import ThreadPoolExecutor
    results = run_batch(work, "pipeline", reqs)
    recs = []
    for r in results:
        m = meta[r["id"]]
        recs.append({"id": r["id"], "via": "api", "known": m["attrs"] is not None,
                     "doc": m["attrs"] or FINE_DOC, "algo": m["algo"], "lexer": m["lexer"],
                     "outcome": r["outcome"], "class": r["class"], "msg": r["msg"][:200]})
    # rcomp runs on the injected / construct documents (exit status 101 = panic)
    rc = run.rcomp_bin()

    def cli(rid):
        m = meta[rid]
        st = m["st"]
        d = m["dir"] + "_cli"
        os.makedirs(d, exist_ok=True)
        gp = os.path.join(d, "g.rustemo")
        with open(gp, "w", encoding="utf-8", errors="surrogatepass") as f:
            f.write(m["text"])
        args = [rc, gp, "-p", st["algo"], "-b", st.get("builder", "generic")]
        if st.get("loc_info"):
            args.append("--builder-loc-info")
        if "tt" in st:
            args += ["-t", {"lalr": "lalr", "pager": "lalr-pager", "rn": "lalr-rn"}[st["tt"]]]
        if st.get("ps"):
            args.append("--prefer-shifts")
        if st.get("pse") is False:
            args.append("--no-shifts-over-empty")
        if st.get("lexer") == "custom":
            args += ["-l", "custom"]
        try:
            r = subprocess.run(args, capture_output=True, text=True, env=run.clean_env(), timeout=120)
            code, outp = r.returncode, r.stdout + r.stderr
        except subprocess.TimeoutExpired:
            code, outp = -9, "timeout"
        if code == 0 and "Parser(s) not generated" in outp:
            outcome = "err"
        elif code == 0:
            outcome = "ok"
        elif code == -9:
            outcome = "hang"
        else:
            outcome = "panic"
        import re as _re
        msg = ""
        mm = _re.search(r"panicked at ([^\n]*)\n([^\n]*)", outp)
        if mm:
            msg = (mm.group(1) + " " + mm.group(2))[:200]
        return {"id": rid, "via": "cli", "known": False, "doc": FINE_DOC, "algo": m["algo"], "lexer": m["lexer"],
                "outcome": outcome, "class": "", "msg": msg}
    cli_ids = [rid for rid in meta if not rid.startswith("mut:") and not rid.startswith("gen:")]
    if tier == "quick":
        cli_ids = [rid for n, rid in enumerate(cli_ids) if n % 3 == 0]
    with ThreadPoolExecutor(max_workers=run.NCPU) as ex:
        recs += list(ex.map(cli, cli_ids))
    recs += path_cases(work, rc)
    recs += [{k: v for k, v in r.items() if k not in ("files_at", "job")} for r in tree_cases(work, rc, "pipeline")]
    rp = work.path("pipeline", "recs.ndjson")
    with open(rp, "w") as f:
        for r in recs:
            f.write(json.dumps(r) + "\n")
    r = run.run_tlc(work, "CheckPipeline", "CheckPipeline.cfg", {"RECS": rp})
    mc = run.run_tlc(work, "MC_Pipeline", "MC_Pipeline.cfg", {}, workers=4)
    mcp = run.run_tlc(work, "MC_Paths", "MC_Paths.cfg", {}, workers=4)
    mc = {"distinct": mc["distinct"] + mcp["distinct"], "states": mc["states"] + mcp["states"],
          "out": mc["out"] if "No error has been found" in mcp["out"] else mcp["out"]}
    verdicts = r["verdicts"]
    import collections
    cls = collections.Counter((v["outcome"], v["class"]) for v in verdicts)
    return {"verdicts": [v for v in verdicts if v["bad"]], "texts": {k: meta[k]["text"] for k in meta
                                                                      if any(v["id"] == k and v["bad"] for v in verdicts)},
            "states": r["distinct"] + mc["distinct"], "transitions": r["states"] + mc["states"],
            "mc_pipeline_ok": "No error has been found" in mc["out"],
            "ncases": len(recs), "ntraces": len(verdicts), "outcomes": {"%s/%s" % k: v for k, v in cls.items()},
            "divergences": ["Paths model differs: %s %s" % (v["id"], v["where"]) for v in verdicts if v.get("where")][:20],
            "npath": sum(1 for x in recs if "path" in x or "tree" in x),
            "samples": [dict(id=v["id"], via=v["via"], outcome=v["outcome"], cls=v["class"]) for v in verdicts[:200:45]]}



PATH_NONE = {"abs": False, "c": ["<none>"]}


def path_cases(work, rc):
    """C16 over WHERE the grammar is and where the output goes (settings.rs computes the output
    directory from the grammar path as written, the root dir and the output roots): every
    combination of working directory, way of naming the grammar, root dir and output root,
    through the library API and through rcomp (root dir = CARGO_MANIFEST_DIR there)."""
    import subprocess
    from concurrent.futures import ThreadPoolExecutor
    base = os.path.dirname(work.path("pipeline", "paths", "x"))
    forms = {"abs": ([], True, ["d", "g.rustemo"]), "bare": (["d"], False, ["g.rustemo"]),
             "dot": (["d"], False, [".", "g.rustemo"]), "dotdot": (["d", "sub"], False, ["..", "g.rustemo"]),
             "nested": ([], False, ["d", "g.rustemo"]), "updown": (["d"], False, ["sub", "..", "g.rustemo"]),
             "deep": ([], False, ["d", "sub", "..", "g.rustemo"])}
    docs = {"fine": BASE_DOC, "broken": "S: A Tb | ;;\nterminals\nTa 'a';\n"}
    jobs = []
    for fname, (cwd, gabs, gc) in sorted(forms.items()):
        for root in ("none", "parent", "cwd", "other", "text"):
            for out in ("none", "abs", "rel"):
                for via in ("api", "cli"):
                    for dname in (("fine", "broken") if out == "abs" else ("fine",)):
                        jobs.append((fname, cwd, gabs, gc, root, out, via, dname))

    def one(job):
        fname, cwd, gabs, gc, root, out, via, dname = job
        cid = "path:%s/root=%s/out=%s/%s|%s" % (fname, root, out, dname, via)
        B = os.path.join(base, "%s_%s_%s_%s_%s" % (fname, root, out, dname, via))
        for sub in ("d/sub", "other"):
            os.makedirs(os.path.join(B, sub), exist_ok=True)
        with open(os.path.join(B, "d", "g.rustemo"), "w") as f:
            f.write(docs[dname])
        wd = os.path.join(B, *cwd)
        gpath = os.path.join(B, *gc) if gabs else os.path.join(*gc)
        if gc[0] == "." and not gabs:
            gpath = "./" + os.path.join(*gc[1:])
        g = {"abs": gabs, "c": gc}
        parent = {"abs": gabs, "c": gc[:-1]}
        rootp = {"none": PATH_NONE, "parent": {"abs": True, "c": ["d"]}, "cwd": {"abs": True, "c": cwd},
                 "other": {"abs": True, "c": ["other"]}, "text": parent}[root]
        outp = {"none": PATH_NONE, "abs": {"abs": True, "c": ["out"]}, "rel": {"abs": False, "c": ["out"]}}[out]

        def real(p):
            if p is PATH_NONE:
                return None
            r_ = os.path.join(B, *p["c"]) if p["abs"] else (os.path.join(*p["c"]) if p["c"] else "")
            if p["c"] and p["c"][0] == "." and not p["abs"]:
                r_ = "." if len(p["c"]) == 1 else "./" + os.path.join(*p["c"][1:])
            return r_
        env = run.clean_env()
        try:
            if via == "api":
                rq = os.path.join(B, "req.json")
                req = {"grammar_path": gpath, "settings": {"builder": "generic", "force": True},
                       "result_path": os.path.join(B, "res.json"), "root_dir": real(rootp)}
                if real(outp) is not None:
                    req["out_dir"] = req["out_dir_actions"] = real(outp)
                json.dump(req, open(rq, "w"))
                subprocess.run([run.vhist_bin(), "api", rq], capture_output=True, text=True, env=env, cwd=wd, timeout=120)
                res = json.load(open(os.path.join(B, "res.json"))) if os.path.exists(os.path.join(B, "res.json")) \
                    else {"outcome": "crash", "msg": ""}
                outcome, msg = res["outcome"], res.get("msg", "")[:200]
            else:
                args = [rc, gpath, "-b", "generic"]
                if real(outp) is not None:
                    args += ["-o", real(outp), "-a", real(outp)]
                if real(rootp) is not None:
                    env["CARGO_MANIFEST_DIR"] = real(rootp)
                r = subprocess.run(args, capture_output=True, text=True, env=env, cwd=wd, timeout=120)
                o = r.stdout + r.stderr
                outcome = "ok" if r.returncode == 0 and "not generated" not in o else \
                    ("err" if r.returncode == 0 else "panic")
                import re as _re
                mm = _re.search(r"panicked at ([^\n]*)\n([^\n]*)", o)
                msg = (mm.group(1) + " " + mm.group(2))[:200] if mm else ""
        except subprocess.TimeoutExpired:
            outcome, msg = "hang", ""
        found = []
        for dp, dn, fn in os.walk(B):
            if "g.rs" in fn:
                rel = os.path.relpath(dp, B)
                found.append([] if rel == "." else rel.split(os.sep))
        return {"id": cid, "via": via, "known": dname == "broken",
                "doc": FINE_DOC if dname == "fine" else dict(FINE_DOC, syntax=False),
                "algo": "lr", "lexer": "default", "outcome": outcome, "class": "syntax" if outcome == "err" and dname == "broken" else "",
                "msg": msg, "path": {"cwd": cwd, "g": g, "root": rootp, "out": outp}, "found": sorted(found)}
    with ThreadPoolExecutor(max_workers=run.NCPU) as ex:
        return list(ex.map(one, jobs))


TREE_FILES = [["top.rustemo"], ["a", "g.rustemo"], ["a", "deep", "er", "g2.rustemo"], ["skipme", "g.rustemo"],
              ["b", "skipmenot", "g.rustemo"], ["b", "zz9.rustemo"], ["b", "g.rustemo"], ["c", "notes.txt"],
              ["c", "g.rustemo.bak"]]


def tree_cases(work, rc, sub):
    """Directory processing (Settings::process_dir / rcomp <dir>) over one tree of grammars with
    nested directories, exclusion patterns (substring of the path text), a root whose own name
    matches a pattern, with and without an output root, root given absolute or relative."""
    import subprocess
    from concurrent.futures import ThreadPoolExecutor
    base = os.path.dirname(work.path(sub, "trees", "x"))
    jobs = []
    for rootname in ("tree", "skipme_root"):
        for excl in ([], ["skipme"], ["zz9"], ["skipme", "zz9"], ["eep"]):
            for out in ("none", "abs", "rel"):
                for rootform in ("abs", "rel"):
                    for via in ("api", "cli"):
                        jobs.append((rootname, excl, out, rootform, via))

    def one(job):
        rootname, excl, out, rootform, via = job
        cid = "tree:%s/excl=%s/out=%s/root=%s|%s" % (rootname, "+".join(excl) or "-", out, rootform, via)
        # the exclusion test looks at the whole path text: the case directory must not contain a pattern
        B = os.path.join(base, "t%d" % jobs.index(job))
        root = os.path.join(B, rootname)
        for f in TREE_FILES:
            os.makedirs(os.path.join(root, *f[:-1]), exist_ok=True)
            with open(os.path.join(root, *f), "w") as fh:
                fh.write(BASE_DOC)
        rootarg = root if rootform == "abs" else rootname
        outarg = {"none": None, "abs": os.path.join(B, "out"), "rel": "out"}[out]
        env = run.clean_env()
        msg = ""
        try:
            if via == "api":
                rq = os.path.join(B, "req.json")
                req = {"root": rootarg, "exclude": excl, "settings": {"builder": "generic", "force": True},
                       "result_path": os.path.join(B, "res.json")}
                if outarg is not None:
                    req["out_dir"] = outarg
                json.dump(req, open(rq, "w"))
                subprocess.run([run.vhist_bin(), "api-dir", rq], capture_output=True, text=True, env=env, cwd=B, timeout=120)
                res = json.load(open(os.path.join(B, "res.json"))) if os.path.exists(os.path.join(B, "res.json")) \
                    else {"outcome": "crash", "msg": ""}
                outcome, msg = res["outcome"], res.get("msg", "")[:200]
            else:
                args = [rc, rootarg, "-b", "generic"]
                for e in excl:
                    args += ["--exclude", e]
                if outarg is not None:
                    args += ["-o", outarg, "-a", outarg]
                r = subprocess.run(args, capture_output=True, text=True, env=env, cwd=B, timeout=120)
                o = r.stdout + r.stderr
                outcome = "ok" if r.returncode == 0 and "not generated" not in o else \
                    ("err" if r.returncode == 0 else "panic")
                import re as _re
                mm = _re.search(r"panicked at ([^\n]*)\n([^\n]*)", o)
                msg = (mm.group(1) + " " + mm.group(2))[:200] if mm else o[-200:] if outcome != "ok" else ""
        except subprocess.TimeoutExpired:
            outcome = "hang"
        found, files_at = [], {}
        for dp, dn, fn in os.walk(B):
            rs_ = sorted(f for f in fn if f.endswith(".rs"))
            if rs_:
                rel = os.path.relpath(dp, B)
                found.append([] if rel == "." else rel.split(os.sep))
                for f in rs_:
                    files_at[os.path.join(rel, f)] = digest_bytes(open(os.path.join(dp, f), "rb").read())
        gram = [f for f in TREE_FILES if f[-1].endswith(".rustemo")]
        hit = lambda name: any(e in name for e in excl)
        tree = {"root": {"abs": rootform == "abs", "c": [rootname]},
                "out": PATH_NONE if out == "none" else {"abs": out == "abs", "c": ["out"]},
                "files": [[{"n": c, "x": hit(c)} for c in f] for f in gram],
                "rootx": hit(root if rootform == "abs" else rootname)}
        return {"id": cid, "via": via, "known": False, "doc": FINE_DOC, "algo": "lr", "lexer": "default",
                "outcome": outcome, "class": "", "msg": msg, "tree": tree, "found": sorted(found),
                "files_at": files_at, "job": [rootname, excl, out, rootform]}
    with ThreadPoolExecutor(max_workers=run.NCPU) as ex:
        return list(ex.map(one, jobs))


def digest_bytes(b):
    import hashlib
    return hashlib.sha256(b).hexdigest()[:16]


REGEN_GRAMMARS = {
    "calc": "E: left=E '+' right=E {Add, 1, left} | left=E '*' right=E {Mul, 2, left} | Num;\nterminals\nNum: /\\d+/;\nPlus: '+';\nMul: '*';\n",
    "list": "S: Item+ Te;\nItem: Num | Name;\nterminals\nNum: /\\d+/;\nName: /[a-z]+/;\nTe: 'e';\n",
    "opt": "S: Ta At? Bs*;\nAt: Tc Num Num;\nBs: Num Name;\nterminals\nTa: 'a';\nTc: ':';\nNum: /\\d+/;\nName: /[a-z]+/;\n",
    "rec": "A: B | Num;\nB: Tl A Tr {Paren} | Tl Tr {Unit};\nterminals\nTl: '(';\nTr: ')';\nNum: /\\d+/;\n",
    "stmt": "P: St*;\nSt: Name Te Ex {Assign} | Tp Ex {Print};\nEx: Num | Name;\nterminals\nName: /[a-z]+/;\nNum: /\\d+/;\nTe: '=';\nTp: 'print';\n",
}


def run_histories(work, name, reqs):
    import subprocess
    shards = [reqs[i::run.NCPU] for i in range(run.NCPU)]

    def one(k):
        if not shards[k]:
            return []
        cp = work.path(name, "req%d.ndjson" % k)
        op = work.path(name, "res%d.ndjson" % k)
        with open(cp, "w") as f:
            for r in shards[k]:
                f.write(json.dumps(r) + "\n")
        r = subprocess.run([run.vhist_bin(), "history", cp, op], capture_output=True, text=True,
                           env=run.clean_env(), timeout=1800)
        if r.returncode != 0:
            raise run.ToolError("vhist history failed: " + r.stderr[-400:])
        return run.read_ndjson(op)
    from concurrent.futures import ThreadPoolExecutor
    with ThreadPoolExecutor(max_workers=run.NCPU) as ex:
        return [x for part in ex.map(one, range(run.NCPU)) for x in part]


def stage_regen(work, tier, seed):
    """C18: histories of user edits and regenerations on real actions files."""
    import itertools
    rng = random.Random(seed * 13 + 1)
    rcomp = run.rcomp_bin()
    base = work.path("regen", "h", "x")
    base = os.path.dirname(base)
    # 1. fresh generation per grammar to learn the item list
    # the hand-written grammars plus every AST shape (enum/struct/optional/vector/reference
    # types in all the combinations type inference distinguishes)
    grammars = dict(REGEN_GRAMMARS)
    for sh in AST_SHAPES:
        grammars["ast_" + sh[0]] = sh[1]
    # the same with location information in the generated types (X / XBase pairs)
    settings_of = {g: {"algo": "lr"} for g in grammars}
    for g in list(grammars):
        if g in REGEN_GRAMMARS or g in ("ast_optional_struct", "ast_calc", "ast_two_optionals", "ast_stmts",
                                        "ast_json_like", "ast_kinds3", "ast_struct2", "ast_sexp_right"):
            grammars[g + "@loc"] = grammars[g]
            settings_of[g + "@loc"] = {"algo": "lr", "loc_info": True}
    first = [{"id": g, "dir": os.path.join(base, "first_" + g), "grammar": text, "settings": settings_of[g],
              "steps": [{"op": "generate", "force": True}]} for g, text in grammars.items()]
    items = {}
    for h in run_histories(work, "regen0", first):
        if not h["steps"] or "items" not in h["steps"][0]:
            continue
        items[h["id"]] = [(it[0], it[1]) for it in h["steps"][0]["items"]
                          if it[0] in ("type", "fn") and it[1] not in ("Input", "Ctx", "Token")]
    reqs = []
    n = 0
    gen = {"op": "generate"}
    for g, text in grammars.items():
        its = items.get(g)
        if not its:
            continue      # not generated under the default LR settings (conflicts)
        extra = g.startswith("ast_")
        hists = []
        # delete each single item, regenerate twice
        for it in its:
            hists.append([{"op": "delete", "names": [list(it)]}, gen, gen])
        # delete pairs (all in thorough, sampled in quick)
        pairs = list(itertools.combinations(its, 2))
        if tier == "quick":
            pairs = rng.sample(pairs, min(4 if extra else 12, len(pairs)))
        elif extra:
            pairs = rng.sample(pairs, min(40, len(pairs)))
        for a, b in pairs:
            hists.append([{"op": "delete", "names": [list(a), list(b)]}, gen])
        fns = [x for x in its if x[0] == "fn"]
        for it in (fns if tier == "thorough" else rng.sample(fns, min(3, len(fns)))):
            other = rng.choice(its)
            hists.append([{"op": "edit", "name": it[1]}, {"op": "delete", "names": [list(other)]}, gen, gen])
        # user items of every kind, in the middle of the file, then a deletion, then regeneration
        for k, kind in enumerate(["use", "const", "impl", "mod", "macro", "fn", "type"]):
            if tier == "thorough" or not extra or (k + len(g)) % 3 == 0:
                hists.append([{"op": "add", "kind": kind, "name": "UserItem%d" % k, "at": (k * 3) % (len(its) + 1)},
                              {"op": "delete", "names": [list(its[(k * 5) % len(its)])]}, gen, gen])
        # edits that change how an item LOOKS (generic parameters, attributes, doc comments,
        # visibility, an alias turned into a newtype) but not its name
        hows = ["generic", "attr", "doc", "vis", "newtype", "body"]
        names_ = sorted({x[1] for x in its})
        for k, nm_ in enumerate(names_ if tier == "thorough" or not extra else rng.sample(names_, min(3, len(names_)))):
            for how in (hows if tier == "thorough" else [hows[(k + len(g)) % len(hows)], hows[(k + 1 + len(g)) % len(hows)]]):
                hists.append([{"op": "edit", "name": nm_, "how": how}, gen, gen])
        for k in range((1 if extra else 3) if tier == "quick" else 12):
            steps = []
            for _ in range(rng.randint(2, 4)):
                c = rng.random()
                if c < 0.45:
                    steps.append({"op": "delete", "names": [list(x) for x in rng.sample(its, rng.randint(1, 3))]})
                elif c < 0.6 and fns:
                    steps.append({"op": "edit", "name": rng.choice(fns)[1]})
                elif c < 0.75:
                    steps.append({"op": "add", "kind": rng.choice(["fn", "type", "use", "const", "impl", "mod", "macro"]),
                                  "name": rng.choice(["user_helper", "UserExtra"]) + str(len(steps)),
                                  "at": rng.randint(0, len(its))})
                else:
                    steps.append(gen)
            steps += [gen, gen]
            hists.append(steps)
        for steps in hists:
            n += 1
            # who regenerates and where the actions live: API with the actions in the source tree,
            # API with a separate actions directory (rcomp's call order), plain rcomp, rcomp -o/-a
            place = ("tree", "adir", "cli", "cli-a")[n % 4]
            reqs.append({"id": "%s:%d|%s" % (g, n, place), "dir": os.path.join(base, "h%d" % n), "grammar": text,
                         "place": place, "rcomp": rcomp,
                         "settings": settings_of[g], "steps": [{"op": "generate", "force": True}] + steps})
    res = run_histories(work, "regen", reqs)
    hp = work.path("regen", "hists.ndjson")
    with open(hp, "w") as f:
        for h in res:
            f.write(json.dumps(h) + "\n")
    r = run.run_tlc(work, "CheckRegen", "CheckRegen.cfg", {"HISTS": hp})
    mc = run.run_tlc(work, "MC_Regen", "MC_Regen.cfg", {}, workers=8)
    steps_of = {q["id"]: q["steps"] for q in reqs}
    verdicts = r["verdicts"]
    return {"verdicts": [v for v in verdicts if v["bad"]], "steps": {v["id"]: steps_of[v["id"]] for v in verdicts if v["bad"]},
            "gtext": {q["id"]: q["grammar"] for q in reqs if any(v["id"] == q["id"] and v["bad"] for v in verdicts)},
            "divergences": ["file differs from Regen.Generate: %s steps %s" % (v["id"], v["div"]) for v in verdicts if v["div"]][:10],
            "states": r["distinct"] + mc["distinct"], "transitions": r["states"] + mc["states"],
            "mc_regen_ok": "No error has been found" in mc["out"],
            "ncases": len(reqs), "ntraces": len(verdicts), "nregenerations": sum(v["ngen"] for v in verdicts),
            "samples": [dict(id=q["id"], steps=q["steps"]) for q in reqs[:60:25]]}



DET_GRAMMARS = dict(REGEN_GRAMMARS)
DET_GRAMMARS.update({
    "same_kind": "E: Ta {A} | Tb {A} | Tc {A1} | Td {A1};\nterminals\nTa: /a/;\nTb: /b/;\nTc: /c/;\nTd: /d/;\n",
    "kinds3": "E: Ta {K} | Tb {K} | Tc {K} | Td {K1} | Ta Tb {K1} | Tc Td {K2} | Tb Tb {K2};\nterminals\nTa: /a/;\nTb: /b/;\nTc: /c/;\nTd: /d/;\n",
    "choice_clash": "E: Num {Add} | Add;\nAdd: Ta;\nterminals\nNum: /\\d+/;\nTa: /a/;\n",
    "amb": "E: E Tp E | E Tm E | Num;\nterminals\nTp: '+';\nTm: '*';\nNum: /\\d+/;\n",
    "lexamb": "S: Id | Kw Id;\nterminals\nKw: 'let';\nId: /[a-z]+/;\n",
    "layout": "S: Num+;\nLayout: LayoutItem*;\nLayoutItem: WS | Comment;\nterminals\nNum: /\\d+/;\nWS: /\\s+/;\nComment: /\\/\\/.*/;\n",
})
DET_DEFAULT = dict(algo="lr", tt="u", ps=False, pse=True, ms="u", lm="u", go="u", gen="functions", lexer="default",
                   builder="default", loc_info=False, fancy=False, partial=False, skip_ws=True, actions=True,
                   input="str", dot=False, print_table=False)


def det_vectors(tier, seed):
    one = [dict(algo="glr"), dict(tt="lalr"), dict(tt="pager"), dict(tt="rn"), dict(ps=True), dict(pse=False),
           dict(ms="f"), dict(lm="f"), dict(ms="t"), dict(go="t"), dict(gen="arrays"), dict(lexer="custom"),
           dict(builder="generic"), dict(builder="custom"), dict(loc_info=True), dict(fancy=True),
           dict(partial=True), dict(skip_ws=False), dict(actions=False),
           dict(lexer="custom", input="MyInput"), dict(dot=True), dict(print_table=True),
           dict(lexer="custom", builder="generic", input="[u8]")]
    two = [dict(algo="glr", tt="lalr"), dict(algo="glr", ps=True), dict(algo="glr", pse=True), dict(algo="glr", go="t"),
           dict(algo="glr", go="f"), dict(algo="glr", lm="f"), dict(algo="glr", gen="arrays"),
           dict(algo="glr", loc_info=True), dict(algo="glr", builder="generic"), dict(tt="lalr", ps=True),
           dict(algo="glr", ms="f", go="t"), dict(gen="arrays", loc_info=True), dict(algo="glr", tt="pager", pse=False)]
    vs = [dict(DET_DEFAULT)] + [dict(DET_DEFAULT, **d) for d in one + two]
    if tier == "thorough":
        rng = random.Random(seed)
        for _ in range(60):
            v = dict(DET_DEFAULT)
            for d in rng.sample(one, 3):
                v.update(d)
            vs.append(v)
    return vs


def cli_args(v, out):
    a = ["-p", v["algo"], "-g", v["gen"], "-l", v["lexer"], "-b", v["builder"], "-o", out, "-a", out]
    if v["tt"] != "u":
        a += ["-t", {"lalr": "lalr", "pager": "lalr-pager", "rn": "lalr-rn"}[v["tt"]]]
    if v["ps"]:
        a.append("--prefer-shifts")
    if not v["pse"]:
        a.append("--no-shifts-over-empty")
    for k, flag in (("ms", "most-specific"), ("lm", "longest-match"), ("go", "grammar-order")):
        if v[k] != "u":
            a.append("--lexical-disamb-%s=%s" % (flag, "true" if v[k] == "t" else "false"))
    for k, flag in (("loc_info", "--builder-loc-info"), ("fancy", "--fancy-regex"), ("partial", "--partial-parse")):
        if v[k]:
            a.append(flag)
    if not v["skip_ws"]:
        a.append("--no-skip-ws")
    if not v["actions"]:
        a.append("--noactions")
    if v.get("input", "str") != "str":
        a += ["-i", v["input"]]
    if v.get("dot"):
        a.append("--dot")
    if v.get("print_table"):
        a.append("--print-table")
    return a


def api_settings(v, minimal=False):
    """The builder calls of an API user.  minimal=False: every setter, in the order rcomp
    calls them; minimal=True: only the setters whose value is not the documented default
    (what a build.rs usually looks like: an LR user never calls parser_algo)."""
    st = dict(algo=v["algo"], ps=v["ps"], pse=v["pse"], gen=v["gen"], lexer=v["lexer"], builder=v["builder"],
              loc_info=v["loc_info"], fancy=v["fancy"], partial=v["partial"], skip_ws=v["skip_ws"],
              actions=v["actions"], force=False)
    if minimal:
        # GLR changes the defaults of both shift preferences to off; they stay explicit there
        dflt = dict(algo="lr", gen="functions", lexer="default", builder="default", loc_info=False, fancy=False,
                    partial=False, skip_ws=True, actions=True)
        if v["algo"] == "lr":
            dflt.update(ps=False, pse=True)
        st = {k: x for k, x in st.items() if k not in dflt or dflt[k] != x}
    if v.get("input", "str") != "str":
        st["input_type"] = v["input"]
    if v.get("dot"):
        st["dot"] = True
    if v.get("print_table"):
        st["print_table"] = True
    if v["tt"] != "u":
        st["tt"] = v["tt"]
    for k in ("ms", "lm", "go"):
        if v[k] != "u":
            st[k] = v[k] == "t"
    return st


def digest_dir(d, stem="g"):
    import hashlib
    h = hashlib.sha256()
    found = False
    for f in (stem + ".rs", stem + "_actions.rs"):
        p = os.path.join(d, f)
        if os.path.exists(p):
            found = True
            h.update(f.encode())
            h.update(open(p, "rb").read())
    return h.hexdigest()[:16] if found else "none"


def stage_determinism(work, tier, seed):
    """C17: the same (grammar, effective settings) compiled in fresh processes
    through the library API, the rcomp binary and directory processing."""
    import itertools
    import subprocess
    from concurrent.futures import ThreadPoolExecutor
    rc = run.rcomp_bin()
    base = os.path.dirname(work.path("det", "x", "y"))
    jobs = []
    vectors = det_vectors(tier, seed)
    gnames = sorted(DET_GRAMMARS)
    reps = 2 if tier == "quick" else 4
    # breadth in the other direction: many documents (every construct document, the AST
    # shapes, generated documents of the grammar language) under the default settings only
    texts = dict(DET_GRAMMARS)
    wide = [(did, text) for did, text, attrs in pipeline_docs("quick", seed) if did.startswith("con:")]
    wide += [("ast:" + sh[0], sh[1]) for sh in AST_SHAPES]
    rngw = random.Random(seed * 37 + 5)
    wide += [("gen:%d" % i, G.docgen(rngw)) for i in range(250 if tier == "quick" else 2500)]
    for did, text in wide:
        texts["w:" + did] = text
        for vi in (0, 1):          # default settings (LR) and GLR, which also accepts conflicts
            jobs.append(("w:" + did, vi, vectors[vi], "api", 0))
            jobs.append(("w:" + did, vi, vectors[vi], "api", 1))
            jobs.append(("w:" + did, vi, vectors[vi], "cli", 0))
    for gi, g in enumerate(gnames):
        for vi, v in enumerate(vectors):
            if v["go"] == "f" and v["algo"] == "lr":
                continue  # documented: grammar order cannot be disabled for LR
            if tier == "quick" and (gi + vi) % 2 == 1 and vi > 0:
                continue
            for rep in range(reps):
                jobs.append((g, vi, v, "api", rep))
                jobs.append((g, vi, v, "cli", rep))

    def one(job):
        g, vi, v, via, rep = job
        d = os.path.join(base, "%s_%d_%s_%d" % (g.replace(":", "_").replace("/", "_"), vi, via, rep))
        os.makedirs(d, exist_ok=True)
        gp = os.path.join(d, "g.rustemo")
        open(gp, "w", encoding="utf-8").write(texts[g])
        out = os.path.join(d, "out")
        try:
            if via == "api":
                rq = os.path.join(d, "req.json")
                json.dump({"grammar_path": gp, "settings": api_settings(v, minimal=rep % 2 == 1), "out_dir": out,
                           "out_dir_actions": out, "result_path": os.path.join(d, "res.json")}, open(rq, "w"))
                r = subprocess.run([run.vhist_bin(), "api", rq], capture_output=True, text=True,
                                   env=run.clean_env(), timeout=120)
                res = json.load(open(os.path.join(d, "res.json"))) if os.path.exists(os.path.join(d, "res.json")) \
                    else {"outcome": "crash"}
                outcome = res["outcome"]
            else:
                r = subprocess.run([rc, gp] + cli_args(v, out), capture_output=True, text=True,
                                   env=run.clean_env(), timeout=120)
                o = r.stdout + r.stderr
                outcome = "ok" if r.returncode == 0 and "not generated" not in o else \
                    ("err" if r.returncode == 0 else "panic")
        except subprocess.TimeoutExpired:
            outcome = "hang"
        dig = digest_dir(out) if outcome == "ok" else outcome
        return {"id": "%s/v%d/%s/%d" % (g, vi, via, rep), "g": g, "given": v, "via": via, "proc": rep, "out": dig}
    with ThreadPoolExecutor(max_workers=run.NCPU) as ex:
        events = list(ex.map(one, jobs))
    # histories: the same grammar compiled to the same place first with OTHER settings; what the
    # second compilation leaves there must be what a fresh compilation with its settings writes
    # (pairs that differ only in flags written as true/false literals included)
    pairs = [(dict(), dict(partial=True, skip_ws=False)), (dict(partial=True, skip_ws=False), dict()),
             (dict(algo="glr"), dict(algo="glr", lm="f", go="t")), (dict(algo="glr", lm="f", go="t"), dict(algo="glr")),
             (dict(partial=True), dict(skip_ws=False)), (dict(algo="glr"), dict()), (dict(gen="arrays"), dict()),
             (dict(ms="f"), dict(lm="f")), (dict(builder="generic"), dict(builder="generic", partial=True, skip_ws=False))]
    hjobs = []
    for gi, g in enumerate(gnames):
        for pi, (da, db) in enumerate(pairs):
            if tier == "quick" and (gi + pi) % 3 != 0:
                continue
            hjobs.append((g, pi, dict(DET_DEFAULT, **da), dict(DET_DEFAULT, **db), "cli" if (gi + pi) % 2 else "api"))

    def hist(job):
        g, pi, va, vb, via = job
        d = os.path.join(base, "hist_%s_%d" % (g, pi))
        os.makedirs(d, exist_ok=True)
        gp = os.path.join(d, "g.rustemo")
        open(gp, "w", encoding="utf-8").write(texts[g])
        out = os.path.join(d, "out")
        outcome = "ok"
        for step, v in enumerate((va, vb)):
            try:
                if via == "api":
                    rq = os.path.join(d, "req%d.json" % step)
                    rp_ = os.path.join(d, "res%d.json" % step)
                    json.dump({"grammar_path": gp, "settings": api_settings(v), "out_dir": out, "out_dir_actions": out,
                               "result_path": rp_}, open(rq, "w"))
                    subprocess.run([run.vhist_bin(), "api", rq], capture_output=True, text=True,
                                   env=run.clean_env(), timeout=120)
                    outcome = json.load(open(rp_))["outcome"] if os.path.exists(rp_) else "crash"
                else:
                    r = subprocess.run([rc, gp] + cli_args(v, out), capture_output=True, text=True,
                                       env=run.clean_env(), timeout=120)
                    o = r.stdout + r.stderr
                    outcome = "ok" if r.returncode == 0 and "not generated" not in o else \
                        ("err" if r.returncode == 0 else "panic")
            except subprocess.TimeoutExpired:
                outcome = "hang"
        dig = digest_dir(out) if outcome == "ok" else outcome
        return {"id": "%s/h%d/%s" % (g, pi, via), "g": g, "given": vb, "via": via, "proc": 100 + pi, "out": dig}
    with ThreadPoolExecutor(max_workers=run.NCPU) as ex:
        hev = list(ex.map(hist, hjobs))
    # a history event is only comparable if the fresh compilation with the same settings exists
    events += hev
    fresh = []
    seen_keys = {(e["g"], json.dumps(e["given"], sort_keys=True)) for e in events if "/h" not in e["id"]}
    for g, pi, va, vb, via in hjobs:
        k_ = (g, json.dumps(vb, sort_keys=True))
        if k_ not in seen_keys:
            seen_keys.add(k_)
            fresh.append((g, 900 + pi, vb, via, 0))
    with ThreadPoolExecutor(max_workers=run.NCPU) as ex:
        events += list(ex.map(one, fresh))
    # directory processing: all grammars in one tree, two layouts (different traversal orders),
    # under the default settings and under GLR with the Arrays layout (tables of very different
    # shape compiled one after the other in ONE process: nothing may carry over from one grammar
    # to the next)
    dir_vectors = [("", DET_DEFAULT), ("ga", dict(DET_DEFAULT, algo="glr", gen="arrays"))]
    have = {(e["g"], json.dumps(e["given"], sort_keys=True)) for e in events}
    solo = [(g, 950, dv, "api", 0) for _tag, dv in dir_vectors for g in gnames
            if (g, json.dumps(dv, sort_keys=True)) not in have]
    with ThreadPoolExecutor(max_workers=run.NCPU) as ex:
        events += list(ex.map(one, solo))
    for layout, (vtag, dv) in itertools.product((0, 1), dir_vectors):
        root = os.path.join(base, "dir%d%s" % (layout, vtag))
        outroot = os.path.join(base, "dirout%d%s" % (layout, vtag))
        # process_dir stops at the first grammar that fails, so only grammars that
        # compile under these settings take part
        okg = [g for g in gnames if any(e["g"] == g and e["given"] == dv and len(e["out"]) > 8 for e in events)]
        for k, g in enumerate(okg):
            sub = os.path.join(root, ("%02d_%s" % (k, g)) if layout == 0 else ("%02d_%s" % (len(gnames) - k, g)))
            os.makedirs(sub, exist_ok=True)
            open(os.path.join(sub, "g.rustemo"), "w").write(DET_GRAMMARS[g])
        subprocess.run([rc, root] + cli_args(dv, outroot), capture_output=True, text=True,
                       env=run.clean_env(), timeout=300)
        for sub in sorted(os.listdir(root)):
            g = sub.split("_", 1)[1]
            od = os.path.join(outroot, sub)
            events.append({"id": "%s/dir%d%s" % (g, layout, vtag), "g": g, "given": dv, "via": "dir", "proc": layout,
                           "out": digest_dir(od) if os.path.isdir(od) else "err"})
    # directory processing with exclusions, nested directories, in-source output: what the
    # library API writes for each file of the tree is what rcomp writes for it
    for r in tree_cases(work, rc, "det"):
        rootname, excl, out, rootform = r["job"]
        for f in TREE_FILES:
            if not f[-1].endswith(".rustemo"):
                continue
            place = ([rootname] if out == "none" else ["out"]) + f[:-1] + [f[-1][:-len(".rustemo")] + ".rs"]
            key = os.path.join(*place)
            events.append({"id": "%s:%s" % (r["id"], "/".join(f)),
                           "g": "tree:%s/%s/%s/%s:%s" % (rootname, "+".join(excl) or "-", out, rootform, "/".join(f)),
                           "given": DET_DEFAULT, "via": "dir-" + r["via"], "proc": 0,
                           "out": r["files_at"].get(key, r["outcome"] if r["outcome"] != "ok" else "none")})
    # events of one grammar stay together; shards keep the quadratic comparison small
    byg = {}
    for e in events:
        byg.setdefault(e["g"], []).append(e)
    shards = [[]]
    for g in sorted(byg):
        if len(shards[-1]) + len(byg[g]) > 700 and shards[-1]:
            shards.append([])
        shards[-1] += byg[g]
    envs = []
    for k, sh in enumerate(shards):
        ep = work.path("det", "events%d.ndjson" % k)
        with open(ep, "w") as f:
            for e in sh:
                f.write(json.dumps(e) + "\n")
        envs.append({"EVENTS": ep})
    rs = run.run_tlc_shards(work, "CheckDeterminism", "CheckDeterminism.cfg", envs, timeout=1200)
    v = {"bad": [b for r in rs for b in r["verdicts"][0]["bad"]],
         "nkeys": sum(r["verdicts"][0]["nkeys"] for r in rs)}
    r = {"distinct": sum(x["distinct"] for x in rs), "states": sum(x["states"] for x in rs)}
    import collections
    outs = collections.Counter(e["out"] if len(e["out"]) < 8 else "generated" for e in events)
    return {"verdicts": [v] if v["bad"] else [], "bad": v["bad"][:30], "events": {e["id"]: e for e in events
                                                                                if any(e["id"] in b[:2] for b in v["bad"][:30])},
            "states": r["distinct"], "transitions": r["states"], "ncases": len(events), "ntraces": len(events),
            "nkeys": v["nkeys"], "outcomes": dict(outs),
            "samples": [dict(id=e["id"], via=e["via"], out=e["out"]) for e in events[:300:97]]}



def render_doc(doc):
    def meta_str(m):
        parts = []
        if m["assoc"]:
            parts.append(m["assoc"])
        if m["prio"] >= 0:
            parts.append(str(m["prio"]))
        if m["nops"]:
            parts.append("nops")
        if m["nopse"]:
            parts.append("nopse")
        if m["kind"]:
            parts.append(m["kind"])
        for k, v, how in m.get("user_src", []):
            parts.append("%s: %s" % (k, how))
        return (" {" + ", ".join(parts) + "}") if parts else ""
    out = []
    for r in doc["rules"]:
        alts = []
        for a in r["alts"]:
            syms = []
            for x in a["syms"]:
                t = ("'%s'" % x["ref"]) if x["str"] else x["ref"]
                t += x["op"]
                if x["sep"]:
                    t += "[%s]" % x["sep"]
                if x.get("name"):
                    t = "%s%s%s" % (x["name"], "?=" if x.get("bool") else "=", t)
                syms.append(t)
            alts.append((" ".join(syms) if syms else "EMPTY") + meta_str(a["meta"]))
        ann = ("@%s\n" % r["ann"]) if r.get("ann") else ""
        out.append("%s%s%s: %s;" % (ann, r["name"], meta_str(r["meta"]), " | ".join(alts)))
    out.append("terminals")
    for t in doc["terms"]:
        parts = []
        if t.get("assoc"):
            parts.append(t["assoc"])
        if t.get("prio", -1) >= 0:
            parts.append(str(t["prio"]))
        for k, v, how in t.get("user_src", []):
            parts.append("%s: %s" % (k, how))
        out.append("%s: %s%s;" % (t["name"], ("'%s'" % t["str"]) if t["str"] else "/\\d+/",
                                  (" {" + ", ".join(parts) + "}") if parts else ""))
    return "\n".join(out) + "\n"


def norm_doc(doc):
    """Fills the optional fields of an abstract document (assignment names, user meta-data,
    annotations, terminal meta-data) so that every record has the same shape for TLC."""
    def nm(m):
        m = dict(m)
        m["user"] = [[k, v] for k, v, how in m.get("user_src", [])]
        m.pop("user_src", None)
        return m
    rules = []
    for r in doc["rules"]:
        rules.append(dict(name=r["name"], ann=r.get("ann", ""), meta=nm(r["meta"]),
                          alts=[dict(meta=nm(a["meta"]),
                                     syms=[dict(ref=x["ref"], str=x["str"], op=x["op"], sep=x["sep"],
                                                name=x.get("name", ""), bool=bool(x.get("bool", False)))
                                           for x in a["syms"]]) for a in r["alts"]]))
    terms = [dict(name=t["name"], str=t["str"], prio=t.get("prio", -1), assoc=t.get("assoc", ""),
                  user=[[k, v] for k, v, how in t.get("user_src", [])]) for t in doc["terms"]]
    return dict(rules=rules, terms=terms)


NOMETA = dict(prio=-1, assoc="", nops=False, nopse=False, kind="")


def random_doc(rng):
    terms = [dict(name="Ta", str="a"), dict(name="Tb", str="b"), dict(name="Tc", str="c"),
             dict(name="Comma", str=","), dict(name="Num", str="")]

    def user(p):
        out = []
        for k in ("x", "y", "zz"):
            if rng.random() < p:
                v, how = rng.choice([("5", "5"), ("0", "0"), ("z", "'z'"), ("a b", '"a b"'), ("true", "true"),
                                     ("false", "false"), ("1.5", "1.5")])
                out.append((k, v, how))
        return out
    for t in terms:
        if rng.random() < 0.25:
            t["prio"] = rng.choice([1, 5, 20])
        if rng.random() < 0.2:
            t["assoc"] = rng.choice(["left", "right"])
        t["user_src"] = user(0.12)
    nr = rng.randint(1, 3)
    names = ["R%d" % i for i in range(nr)]

    def meta(p):
        m = dict(NOMETA)
        if rng.random() < p:
            m["assoc"] = rng.choice(["left", "right"])
        if rng.random() < p:
            m["prio"] = rng.choice([1, 5, 20])
        if rng.random() < p / 2:
            m["nops"] = True
        if rng.random() < p / 2:
            m["nopse"] = True
        return m
    rules = []
    for ri, n in enumerate(names):
        alts = []
        for ai in range(rng.randint(1, 3)):
            syms = []
            for _ in range(rng.randint(0, 3)):
                c = rng.random()
                if c < 0.2:
                    x = dict(ref=rng.choice(["a", "b", "c"]), str=True, op="", sep="")
                elif c < 0.7:
                    x = dict(ref=rng.choice(["Ta", "Tb", "Tc", "Num"]), str=False, op="", sep="")
                else:
                    later = names[ri + 1:] or ["Tb"]
                    x = dict(ref=rng.choice(later), str=False, op="", sep="")
                if rng.random() < 0.4:
                    x["op"] = rng.choice(["?", "*", "+"])
                    if x["op"] in "*+" and rng.random() < 0.4:
                        x["sep"] = rng.choice(["Comma", "Tc"])
                if rng.random() < 0.25:
                    used = {y.get("name") for y in syms}
                    nm_ = rng.choice([n_ for n_ in ("a", "b", "val", "left") if n_ not in used] or [""])
                    if nm_:
                        x["name"] = nm_
                        x["bool"] = rng.random() < 0.35
                syms.append(x)
            if not syms and rng.random() < 0.5:
                syms = [dict(ref="EMPTY", str=False, op="", sep="")]
            m = meta(0.35)
            if rng.random() < 0.25:
                free = [k_ for k_ in ("Aa", "Bb", "Cc") if k_ not in {a_["meta"]["kind"] for a_ in alts}]
                if free:
                    m["kind"] = rng.choice(free)
            m["user_src"] = user(0.15)
            alts.append(dict(syms=syms, meta=m))
        rm = meta(0.3)
        rm["user_src"] = user(0.2)
        rules.append(dict(name=n, meta=rm, alts=alts, ann=rng.choice(["vec", "other"]) if rng.random() < 0.1 else ""))
    return dict(rules=rules, terms=terms)


CURATED_DOCS = []


def _cd(name, rules):
    terms = [dict(name="Ta", str="a"), dict(name="Tb", str="b"), dict(name="Tc", str="c"),
             dict(name="Comma", str=","), dict(name="Num", str="")]
    CURATED_DOCS.append((name, dict(rules=rules, terms=terms)))


def _s(ref, op="", sep="", str_=False):
    return dict(ref=ref, str=str_, op=op, sep=sep)


_cd("sep_and_nosep", [dict(name="S", meta=NOMETA, alts=[dict(syms=[_s("Tb", "+"), _s("Tc"), _s("Tb", "+", "Comma")], meta=NOMETA)])])
_cd("star_sep_and_plus", [dict(name="S", meta=NOMETA, alts=[dict(syms=[_s("Tb", "*", "Comma"), _s("Tc"), _s("Tb", "+")], meta=NOMETA)])])
_cd("two_seps", [dict(name="S", meta=NOMETA, alts=[dict(syms=[_s("Tb", "+", "Comma"), _s("Ta"), _s("Tb", "+", "Tc")], meta=NOMETA)])])
_cd("shared", [dict(name="S", meta=NOMETA, alts=[dict(syms=[_s("Tb", "*"), _s("Ta"), _s("Tb", "*")], meta=NOMETA),
                                                 dict(syms=[_s("Tb", "+")], meta=NOMETA)])])
_cd("rule_right_prod_left", [dict(name="E", meta=dict(NOMETA, assoc="right"),
                                  alts=[dict(syms=[_s("E"), _s("Ta"), _s("E")], meta=dict(NOMETA, assoc="left")),
                                        dict(syms=[_s("Num")], meta=NOMETA)])])
_cd("rule_left_prod_right", [dict(name="E", meta=dict(NOMETA, assoc="left", prio=1),
                                  alts=[dict(syms=[_s("E"), _s("Ta"), _s("E")], meta=dict(NOMETA, assoc="right", prio=2)),
                                        dict(syms=[_s("E"), _s("Tb"), _s("E")], meta=NOMETA),
                                        dict(syms=[_s("Num")], meta=NOMETA)])])
_cd("rule_two_keys", [dict(name="E", meta=dict(NOMETA, assoc="right", prio=1),
                           alts=[dict(syms=[_s("E"), _s("Ta"), _s("E")], meta=dict(NOMETA, prio=2)),
                                 dict(syms=[_s("E"), _s("Tb"), _s("E")], meta=dict(NOMETA, assoc="left")),
                                 dict(syms=[_s("Num")], meta=dict(NOMETA, nops=True))])])
_cd("inline_sugar", [dict(name="S", meta=NOMETA, alts=[dict(syms=[_s("a", "*", "", True), _s("b", "?", "", True), _s("c", "", "", True)], meta=NOMETA)])])
# a user rule named like the helper of a repetition the document uses, written before and after the use
REJECT_DOCS = {"clash_plus_after", "clash_plus_before", "clash_opt_after", "clash_star_after", "clash_star_one_after"}
_cd("clash_plus_after", [dict(name="S", meta=NOMETA, alts=[dict(syms=[_s("R1", "+"), _s("Tc")], meta=NOMETA)]),
                         dict(name="R1", meta=NOMETA, alts=[dict(syms=[_s("Ta")], meta=NOMETA)]),
                         dict(name="R11", meta=NOMETA, alts=[dict(syms=[_s("Tb")], meta=NOMETA)])])
_cd("clash_plus_before", [dict(name="S", meta=NOMETA, alts=[dict(syms=[_s("R11"), _s("R1", "+")], meta=NOMETA)]),
                          dict(name="R11", meta=NOMETA, alts=[dict(syms=[_s("Tb")], meta=NOMETA)]),
                          dict(name="R1", meta=NOMETA, alts=[dict(syms=[_s("Ta")], meta=NOMETA)])])
_cd("clash_opt_after", [dict(name="S", meta=NOMETA, alts=[dict(syms=[_s("R1", "?"), _s("Tc")], meta=NOMETA)]),
                        dict(name="R1", meta=NOMETA, alts=[dict(syms=[_s("Ta")], meta=NOMETA)]),
                        dict(name="R1Opt", meta=NOMETA, alts=[dict(syms=[_s("Tb")], meta=NOMETA)])])
_cd("clash_star_after", [dict(name="S", meta=NOMETA, alts=[dict(syms=[_s("R1", "*"), _s("Tc")], meta=NOMETA)]),
                         dict(name="R1", meta=NOMETA, alts=[dict(syms=[_s("Ta")], meta=NOMETA)]),
                         dict(name="R10", meta=NOMETA, alts=[dict(syms=[_s("Tb")], meta=NOMETA)])])
_cd("clash_star_one_after", [dict(name="S", meta=NOMETA, alts=[dict(syms=[_s("R1", "*"), _s("Tc")], meta=NOMETA)]),
                             dict(name="R1", meta=NOMETA, alts=[dict(syms=[_s("Ta")], meta=NOMETA)]),
                             dict(name="R11", meta=NOMETA, alts=[dict(syms=[_s("Tb")], meta=NOMETA)])])
# ... and systematically: every operator x every helper name it creates x where the clashing
# user rule stands: defined AFTER the rule that uses the operator, defined BEFORE it (the using
# rule is not the first rule then), or being itself the rule whose first / second production
# uses the operator.  Each of them has to be rejected with a diagnostic.
for _op, _sufs in (("+", ["1"]), ("*", ["0", "1"]), ("?", ["Opt"])):
    for _suf in _sufs:
        _tag = {"+": "plus", "*": "star", "?": "opt"}[_op] + _suf
        _cl = "R1" + _suf
        _r1 = dict(name="R1", meta=NOMETA, alts=[dict(syms=[_s("Ta")], meta=NOMETA)])
        _clash = dict(name=_cl, meta=NOMETA, alts=[dict(syms=[_s("Tb")], meta=NOMETA)])
        _user = dict(name="U", meta=NOMETA, alts=[dict(syms=[_s("R1", _op), _s("Tc")], meta=NOMETA)])
        _cd("gclash_%s_def_after" % _tag, [dict(name="S", meta=NOMETA, alts=[dict(syms=[_s("U"), _s(_cl)], meta=NOMETA)]),
                                           _user, _r1, _clash])
        _cd("gclash_%s_def_before" % _tag, [dict(name="S", meta=NOMETA, alts=[dict(syms=[_s(_cl), _s("U")], meta=NOMETA)]),
                                            _clash, _user, _r1])
        _cd("gclash_%s_self_first" % _tag, [dict(name="S", meta=NOMETA, alts=[dict(syms=[_s(_cl), _s("Tc")], meta=NOMETA)]),
                                            dict(name=_cl, meta=NOMETA, alts=[dict(syms=[_s("R1", _op), _s("Tb")], meta=NOMETA)]), _r1])
        _cd("gclash_%s_self_second" % _tag, [dict(name="S", meta=NOMETA, alts=[dict(syms=[_s(_cl), _s("Tc")], meta=NOMETA)]),
                                             dict(name=_cl, meta=NOMETA, alts=[dict(syms=[_s("Tb")], meta=NOMETA),
                                                                               dict(syms=[_s("R1", _op), _s("Tb")], meta=NOMETA)]), _r1])
        REJECT_DOCS |= {"gclash_%s_%s" % (_tag, w) for w in ("def_after", "def_before", "self_first", "self_second")}
_cd("empty_mid", [dict(name="S", meta=NOMETA, alts=[dict(syms=[_s("Ta"), _s("EMPTY"), _s("Tb")], meta=NOMETA),
                                                    dict(syms=[_s("EMPTY")], meta=NOMETA)])])


def stage_builder(work, tier, seed):
    """C09: rendered abstract documents -> grammar_json of the real builder -> Builder.BuilderDefects."""
    import subprocess
    docs = list(CURATED_DOCS)
    n = 250 if tier == "quick" else 3000
    for i in range(n):
        docs.append(("doc:%d:%d" % (seed, i), random_doc(random.Random("doc-%d-%d" % (seed, i)))))
    base = os.path.dirname(work.path("builder", "g", "x"))
    reqs = []
    meta = {}
    for k, (did, doc) in enumerate(docs):
        d = os.path.join(base, "d%d" % k)
        os.makedirs(d, exist_ok=True)
        gp = os.path.join(d, "g.rustemo")
        text = render_doc(doc)
        open(gp, "w").write(text)
        reqs.append({"id": did, "grammar_path": gp, "settings": {"algo": "glr", "builder": "generic"},
                     "out_dir": os.path.join(d, "out"), "out_dir_actions": os.path.join(d, "out"),
                     "want_grammar": True})
        meta[did] = (doc, text)
    results = run_batch(work, "builder", reqs)
    recs = []
    rejected = []
    aborts = []
    for r in results:
        if r.get("outcome") in ("panic", "crash", "hang") or r.get("g", {}).get("err") == "panic":
            aborts.append(dict(id=r["id"], cls=r.get("outcome"), msg=(r.get("msg") or r.get("g", {}).get("msg", ""))[:200]))
        if "err" in r.get("g", {"err": 1}):
            rejected.append((r["id"], r.get("g", {}).get("err"), r.get("msg", "")[:100]))
            recs.append({"id": r["id"], "doc": norm_doc(meta[r["id"]][0]), "reject": r["id"] in REJECT_DOCS,
                         "g": {"err": str(r.get("g", {}).get("err", r.get("outcome", "?"))),
                               "msg": (r.get("msg") or r.get("g", {}).get("msg", ""))[-160:]}})
            continue
        recs.append({"id": r["id"], "doc": norm_doc(meta[r["id"]][0]), "g": r["g"], "reject": r["id"] in REJECT_DOCS})
    envs = []
    for k in range(run.NCPU):
        part = recs[k::run.NCPU]
        if not part:
            continue
        rp = work.path("builder", "recs%d.ndjson" % k)
        with open(rp, "w") as f:
            for x in part:
                f.write(json.dumps(x) + "\n")
        envs.append({"RECS": rp})
    rs = run.run_tlc_shards(work, "CheckBuilder", "CheckBuilder.cfg", envs)
    verdicts = [v for r in rs for v in r["verdicts"]]
    nsugar = sum(1 for did, (doc, _) in meta.items() for r in doc["rules"] for a in r["alts"] for x in a["syms"] if x["op"])
    return {"verdicts": [v for v in verdicts if v["bad"]], "gtext": {v["id"]: meta[v["id"]][1] for v in verdicts if v["bad"]},
            "rejected": rejected[:20], "nrejected": len(rejected), "aborts": aborts[:50],
            "texts": {a["id"]: meta[a["id"]][1] for a in aborts[:50] if a["id"] in meta},
            "states": sum(r["distinct"] for r in rs), "transitions": sum(r["states"] for r in rs),
            "ncases": len(docs), "ntraces": len(verdicts), "nsugar_uses": nsugar,
            "samples": [dict(id=did, text=meta[did][1]) for did in list(meta)[:40:15]]}



def stage_codegen(work, tier, seed):
    """C08: generated parsers (Arrays / Functions x LR / GLR) answer every table
    query as the dumped table; both layouts parse shared inputs identically."""
    from . import vgen
    rng = random.Random(seed * 17 + 2)
    cor = corpus(tier, seed)
    cur = [c for c in cor if "curated" in c[2] or "annotated" in c[2]]
    rnd = [c for c in cor if "random" in c[2]]
    ng = 14 if tier == "quick" else 90
    chosen = rng.sample(cur, min(ng // 2, len(cur))) + rng.sample(rnd, min(ng - ng // 2, len(rnd)))
    # always: shapes whose right-nulled tables have cells with several reductions, also of ONE
    # production at different lengths (self-overlapping right-nullable productions)
    always = ("cur:unbounded_amb_eps", "cur:eps_amb", "cur:all_nullable", "cur:rr_two_null", "cur:rr_three_null",
              "cur:right_null_prefix", "cur:self_overlap_rn", "cur:expr_amb")
    chosen += [c for c in cor if c[0] in always and c not in chosen]
    # lexically ambiguous grammars exercise the lexical-strategy flags of the definition
    lexg = [("lexamb:%d" % i, g, {"lex"}) for i, (gid, g) in enumerate(lex_sets(seed, 3 if tier == "quick" else 12))]
    cases = []
    insts = []
    k = 0
    for gid, g, tags in chosen + lexg:
        text = G.render(g)
        r2 = random.Random("cg-%s-%d" % (gid, seed))
        if "lex" in tags:
            ins = [w for w in LEX_WINDOWS[:6]]
        else:
            ins = []
            for toks, kind in gen_inputs(g, r2, 3, 3):
                if len(toks) <= 8:
                    ins.append(G.render_input(g, toks, r2)[0])
        for algo in ("lr", "glr"):
            k += 1
            cid = "%s|%s" % (gid, algo)
            cfgv = {"algo": algo}
            if "lex" in tags and algo == "glr":
                cfgv = {"algo": "glr", "lm": r2.random() < 0.5, "go": r2.random() < 0.5}
            cases.append({"id": cid, "grammar": text, "cfg": cfgv, "meta": {"nodis": False, "plain": False}})
            for gen in ("arrays", "functions"):
                st = {"algo": algo, "gen": gen, "builder": "generic"}
                for kk in ("lm", "go"):
                    if kk in cfgv:
                        st[kk] = cfgv[kk]
                insts.append({"name": "p%d_%s" % (k, gen), "cid": cid, "grammar": text, "settings": st,
                              "inputs": ins, "pair": k, "history": True})
    pres = run.run_vdrive(work, "codegen", cases, shards=4)
    dumps = {}
    for p in pres:
        for d in run.read_ndjson(p + ".dumps.ndjson"):
            dumps[d["id"]] = d
    use = []
    for inst in insts:
        d = dumps.get(inst["cid"])
        if d is None or (inst["settings"]["algo"] == "lr" and d["t"]["nconflicts"] > 0):
            continue
        inst["table"] = d["t"]
        inst["cfg"] = d["cfg"]
        use.append(inst)
    res = vgen.build(work, use)
    recs = []
    rustc = []
    for inst in use:
        r = res[inst["name"]]
        if r["rustc"]:
            rustc.append(dict(id=inst["cid"] + "/" + inst["settings"]["gen"], errs=r["rustc"], grammar=inst["grammar"]))
        if r["table"] is None:
            continue
        recs.append({"id": inst["cid"] + "/" + inst["settings"]["gen"], "pair": inst["pair"], "cfg": inst["cfg"],
                     "q": r["table"], "t": inst["table"], "runs": r["runs"]})
    rp = work.path("codegen", "recs.ndjson")
    envs = []
    # keep pairs together when sharding
    pairs = sorted({r["pair"] for r in recs})
    for sh in range(8):
        part = [r for r in recs if pairs.index(r["pair"]) % 8 == sh]
        if not part:
            continue
        fp = "%s.%d" % (rp, sh)
        with open(fp, "w") as f:
            for x in part:
                f.write(json.dumps(x) + "\n")
        envs.append({"RECS": fp})
    rs = run.run_tlc_shards(work, "CheckCodegen", "CheckCodegen.cfg", envs)
    verdicts = [v for r in rs for v in r["verdicts"]]
    gt = {i["cid"] + "/" + i["settings"]["gen"]: i["grammar"] for i in use}
    return {"verdicts": [v for v in verdicts if v["bad"]], "gtext": {v["id"]: gt[v["id"]] for v in verdicts if v["bad"]},
            "rustc": rustc[:20],
            "states": sum(r["distinct"] for r in rs), "transitions": sum(r["states"] for r in rs),
            "programs": len(recs), "ncases": len(use), "ntraces": len(verdicts),
            "nqueries": sum(v["nstates"] for v in verdicts), "nruns": sum(v["nruns"] for v in verdicts),
            "npaired": sum(1 for v in verdicts if v["paired"]),
            "samples": [dict(id=v["id"], states=v["nstates"], inputs_run=v["nruns"]) for v in verdicts[:3]]}



T_NUMNAME = "Num: /\\d+/;\nName: /[a-z]+/;\n"
# (name, grammar text, inputs, expected number of None (-1 = not judged) per input, lr_ok)
AST_SHAPES = [
    # regex terminals with a TOP-LEVEL alternation (the generated recognizer has to anchor all of it)
    ("regex_alt", "S: Item+;\nItem: Num | Word;\nterminals\nNum: /\\d+/;\nWord: /foo|bar|bazz/;\n",
     ["12 bar", "foo 12", "bar foo 7", "1 bazz 22 foo 3 bar"], None),
    ("regex_alt_sep", "S: Num+[Word] Semi Word;\nterminals\nNum: /\\d+/;\nWord: /foo|bar|qux/;\nSemi: ';';\n",
     ["1 ; bar", "1 bar 2 foo 3 ; qux"], None),
    ("enum_terms", "S: Num | Name;\nterminals\n" + T_NUMNAME, ["1", "ab"], None),
    ("struct2", "S: a=Num b=Name c=Num;\nterminals\n" + T_NUMNAME, ["1 ab 2"], None),
    ("calc", "E: left=E '+' right=E {Add, 1, left} | left=E '*' right=E {Mul, 2, left} | '(' E ')' {Paren} | Num;\n"
             "terminals\nNum: /\\d+/;\nPlus: '+';\nMul: '*';\nLp: '(';\nRp: ')';\n",
     ["1 + 2 * 3", "( 1 + 2 ) * 3 + 4", "5"], None),
    ("plus", "S: Num+;\nterminals\n" + T_NUMNAME, ["1", "1 2 3 4"], None),
    ("star", "S: Num* Name;\nterminals\n" + T_NUMNAME, ["x", "1 2 3 x"], None),
    ("plus_sep", "S: Num+[Comma];\nterminals\nNum: /\\d+/;\nComma: ',';\n", ["1", "1, 2, 3, 4"], None),
    ("star_sep", "S: Num*[Comma] Semi Name;\nterminals\n" + T_NUMNAME + "Comma: ',';\nSemi: ';';\n",
     ["; x", "1, 2, 3 ; x"], None),
    ("plus_regex_sep", "S: Num+[Sep];\nterminals\nNum: /\\d+/;\nSep: /[a-z]+/;\n", ["1", "1 a 2 b 3"], None),
    ("optional", "S: Name At? Num;\nAt: Colon Num;\nterminals\n" + T_NUMNAME + "Colon: ':';\n",
     ["x 1", "x : 2 1"], [1, 0]),
    ("optional_struct", "S: Name At Num;\nAt: Colon Num Name | EMPTY;\nterminals\n" + T_NUMNAME + "Colon: ':';\n",
     ["x 1", "x : 2 y 1"], [1, 0]),
    ("two_optionals", "Decl: name=Name ty=TypeSpec? init=Num?;\nTypeSpec: Colon Name;\nterminals\n" + T_NUMNAME + "Colon: ':';\n",
     ["x", "x : int", "x 5", "x : int 5"], [2, 1, 1, 0]),
    ("two_optionals_prio", "Decl: name=Name ty=TypeSpec? init=Num? {15};\nTypeSpec: Colon Name;\nterminals\n" + T_NUMNAME + "Colon: ':';\n",
     ["x", "x : int", "x 5", "x : int 5"], [2, 1, 1, 0]),
    ("rec_ref", "A: B;\nB: Lp A Rp | Num;\nterminals\nLp: '(';\nRp: ')';\nNum: /\\d+/;\n", ["1", "( ( 2 ) )"], None),
    ("vec_left", "@vec\nL: L Num | Num;\nterminals\n" + T_NUMNAME, ["1", "1 2 3 4"], None),
    ("vec_right", "@vec\nL: Num L | Num;\nterminals\n" + T_NUMNAME, ["1", "1 2 3 4"], None),
    ("sexp_right", "Program: Sexp;\nSexp: Name | Lp List Rp;\n@vec\nList: Sexp List | Sexp;\nterminals\n" + T_NUMNAME
     + "Lp: '(';\nRp: ')';\n", ["( a b c )", "( a ( b c ) d )", "x"], None),
    ("sexp_left", "Program: Sexp;\nSexp: Name | Lp List Rp;\n@vec\nList: List Sexp | Sexp;\nterminals\n" + T_NUMNAME
     + "Lp: '(';\nRp: ')';\n", ["( a b c )", "( a ( b c ) d )"], None),
    ("sexp_sugar", "Program: Sexp;\nSexp: Name | Lp Sexp* Rp;\nterminals\n" + T_NUMNAME
     + "Lp: '(';\nRp: ')';\n", ["( a b c )", "( a ( b c ) ( ) d )"], None),
    ("sexp_right_eps", "Program: Sexp;\nSexp: Name | Lp List Rp;\n@vec\nList: Sexp List | EMPTY;\nterminals\n" + T_NUMNAME
     + "Lp: '(';\nRp: ')';\n", ["( a b c )", "( )", "( a ( ) b )"], None),
    ("regex_empty_match", "S: Num* Name;\nterminals\nNum: /\\d*/;\nName: /[a-z]+/;\n", ["12 3 x", "x"], None),
    ("vec_left_sep", "@vec\nL: L Comma Num | Num;\nterminals\nNum: /\\d+/;\nComma: ',';\n", ["1", "1, 2, 3"], None),
    ("vec_empty", "S: Name L;\n@vec\nL: L Num | Num | EMPTY;\nterminals\n" + T_NUMNAME, ["x", "x 1 2 3"], None),
    ("vec_empty_strs", "S: Ta L;\n@vec\nL: L Tb | Tb | EMPTY;\nterminals\nTa: /a/;\nTb: /b/;\n", ["a"], None),
    ("nested_sugar", "S: A*;\nA: Num? Name+ Semi;\nterminals\n" + T_NUMNAME + "Semi: ';';\n",
     ["", "1 a b ; c ; 2 d ;"], None),
    ("unreachable", "S: Num;\nU: Name Name;\nterminals\n" + T_NUMNAME, ["7"], None),
    ("all_const", "S: Ta Tb | Tb;\nterminals\nTa: 'a';\nTb: 'b';\n", ["a b", "b"], None),
    ("choice_clash", "E: Num {Add} | Add;\nAdd: Name;\nterminals\n" + T_NUMNAME, ["1", "x"], None),
    ("kinds3", "E: Num {K} | Name {K} | Num Name {K1} | Name Num {K1};\nterminals\n" + T_NUMNAME, ["1", "x", "1 x", "x 1"], None),
    ("stmts", "P: St*;\nSt: Name Eq Ex Semi {Assign} | Pr Ex Semi {Print};\nEx: Num | Name;\nterminals\n" + T_NUMNAME
     + "Eq: '=';\nPr: '!';\nSemi: ';';\n", ["a = 1 ; ! b ; c = d ;", ""], None),
    ("layout", "S: Num+;\nLayout: LayoutItem*;\nLayoutItem: WS | Comment;\nterminals\nNum: /\\d+/;\nWS: /\\s+/;\nComment: /\\/\\/.*/;\n",
     ["1 2 // c\n3"], None),
    ("json_like", "V: O | A | Num | Name;\nO: Lb Ms? Rb;\nMs: Ms Comma M | M;\nM: Name Colon V;\nA: Ls Vs? Rs;\nVs: Vs Comma V | V;\n"
     "terminals\n" + T_NUMNAME + "Lb: '{';\nRb: '}';\nLs: '[';\nRs: ']';\nComma: ',';\nColon: ':';\n",
     ["{ a : 1 , b : [ 2 , c , { } ] }", "[ ]"], None),
    ("bool_assign", "S: a?=Ta? n=Num b?=Tb?;\nterminals\nTa: 'a';\nTb: 'b';\nNum: /\\d+/;\n", ["a 1 b", "1"], None),
    ("same_prod_kinds", "S: Num {Aa} | Name {Aa};\nterminals\n" + T_NUMNAME, ["1"], None),
    ("dup_rule_name", "S: A A;\nA: Num;\nA: Name;\nterminals\n" + T_NUMNAME, ["1 x"], None),
    # the same kind in two PARTS of one rule (has to be refused like the same kind in one part)
    ("kind_in_two_parts", "S: A A;\nA: Num {Aa} | Num Name {Bb};\nA: Name {Aa};\nterminals\n" + T_NUMNAME, ["1 x"], None),
    ("kinds_in_two_parts_ok", "S: A A;\nA: Num {Aa} | Num Name {Bb};\nA: Name {Cc};\nterminals\n" + T_NUMNAME, ["1 x"], None),
    ("keyword_field", "S: type=Num fn=Name;\nterminals\n" + T_NUMNAME, ["1 x"], None),
    ("underscore_names", "my_rule: my_item+;\nmy_item: Num | Name;\nterminals\n" + T_NUMNAME, ["1 x 2"], None),
    # names whose snake-case form is a Rust keyword (generated fields, parameters, functions)
    ("kw_rule_names", "S: If Type Loop;\nIf: Num Name;\nType: Name | Num;\nLoop: Box+;\nBox: Num;\nterminals\n" + T_NUMNAME,
     ["1 a b 2 3"], None),
    ("kw_term_names", "S: If Match For;\nterminals\nIf: /\\d+/;\nMatch: /[a-z]+/;\nFor: '!';\n", ["1 a !"], None),
    ("kw_str_terms", "Stmt: If Num Then Name Else Name;\nterminals\nIf: '?';\nThen: ':';\nElse: '!';\n" + T_NUMNAME,
     ["? 1 : a ! b"], None),
    # rules named like the items the generated actions file starts with
    ("prelude_c", "C: Num | C Name;\nterminals\n" + T_NUMNAME, ["1 a b"], None),
    ("prelude_token", "S: Token+;\nToken: Num | Name;\nterminals\n" + T_NUMNAME, ["1 a"], None),
    ("prelude_input", "Input: Ctx+;\nCtx: Num | Name;\nterminals\n" + T_NUMNAME, ["1 a"], None),
    ("prelude_context", "S: Context TokenKind;\nContext: Num Name;\nTokenKind: Name | Num;\nterminals\n" + T_NUMNAME, ["1 a b"], None),
    ("prelude_valspan", "S: ValSpan RustemoToken;\nValSpan: Num Name;\nRustemoToken: Name | Num;\nterminals\n" + T_NUMNAME, ["1 a b"], None),
    ("std_names", "S: Vec Option String;\nVec: Num Name;\nOption: Name | Num;\nString: Num;\nterminals\n" + T_NUMNAME, ["1 a b 2"], None),
    # the same assignment name twice in one production
    ("dup_assign", "S: a=Num a=Name;\nterminals\n" + T_NUMNAME, ["1 x"], None),
    ("dup_assign_bool", "S: a?=Ta? a=Num;\nterminals\nTa: 'a';\nNum: /\\d+/;\n", ["a 1"], None),
    ("assign_like_auto", "S: num=Name Num;\nterminals\n" + T_NUMNAME, ["x 1"], None),
    # a rule whose only content is the rule itself
    ("self_rec_const", "S: Ta Tb S | EMPTY;\nterminals\nTa: '<';\nTb: '>';\n", ["< > < >", ""], None),
    ("self_rec_opt", "S: Ta S? Tb;\nterminals\nTa: '<';\nTb: '>';\n", ["< < > >"], None),
    ("self_rec_no_base", "S: A;\nA: Ta A;\nterminals\nTa: 'a';\n", [], None),
    ("mutual_rec_const", "S: A;\nA: Ta B | Ta;\nB: Tb A;\nterminals\nTa: '<';\nTb: '>';\n", ["< > <"], None),
]


def ast_doc(rng):
    """A random sugar-rich grammar document for C10 (same record format as random_doc): every
    terminal except the punctuation carries content, rules refer only to later rules, symbols
    get repetition operators (with separators), names and ?= flags."""
    terms = [dict(name="Ta", str="", re="a\\d*"), dict(name="Tb", str="", re="b\\d*"), dict(name="Tc", str="", re="c\\d*"),
             dict(name="Num", str="", re="\\d+"), dict(name="Comma", str=","), dict(name="Semi", str=";")]
    nr = rng.randint(1, 3)
    names = ["R%d" % i for i in range(nr)]
    rules = []
    sep_of = {}
    for ri, n in enumerate(names):
        alts = []
        for ai in range(rng.choice([1, 1, 2, 2, 3])):
            syms = []
            for _ in range(rng.randint(1, 4)):
                c = rng.random()
                if c < 0.6:
                    x = dict(ref=rng.choice(["Ta", "Tb", "Tc", "Num"]), str=False, op="", sep="")
                elif c < 0.75:
                    x = dict(ref=rng.choice(["Comma", "Semi"]), str=False, op="", sep="")
                else:
                    later = names[ri + 1:]
                    x = dict(ref=rng.choice(later) if later else rng.choice(["Ta", "Num"]), str=False, op="", sep="")
                if rng.random() < 0.35:
                    x["op"] = rng.choice(["?", "*", "+"])
                    if x["op"] in "*+":
                        # one separator per repeated symbol in a document (recorded finding
                        # C09-F1: uses with different separators share a helper rule)
                        if x["ref"] not in sep_of:
                            sep_of[x["ref"]] = rng.choice(["Comma", "Semi", "Tc"]) if rng.random() < 0.4 else ""
                        x["sep"] = sep_of[x["ref"]]
                if rng.random() < 0.25:
                    used = {y.get("name") for y in syms}
                    nm_ = rng.choice([n_ for n_ in ("a", "b", "val", "left") if n_ not in used] or [""])
                    if nm_:
                        x["name"] = nm_
                        x["bool"] = rng.random() < 0.3
                syms.append(x)
            m = dict(NOMETA)
            if rng.random() < 0.2:
                free = [k_ for k_ in ("Aa", "Bb", "Cc") if k_ not in {a_["meta"]["kind"] for a_ in alts}]
                if free:
                    m["kind"] = rng.choice(free)
            alts.append(dict(syms=syms, meta=m))
        if rng.random() < 0.15:
            alts.append(dict(syms=[dict(ref="EMPTY", str=False, op="", sep="")], meta=dict(NOMETA)))
        rules.append(dict(name=n, meta=dict(NOMETA), alts=alts))
    return dict(rules=rules, terms=terms)


def render_ast_doc(doc):
    text = render_doc(dict(rules=doc["rules"], terms=[]))
    lines = [l for l in text.split("\n") if l]
    for t in doc["terms"]:
        lines.append("%s: %s;" % (t["name"], ("'%s'" % t["str"]) if t["str"] else "/%s/" % t["re"]))
    return "\n".join(lines) + "\n"


def ast_doc_sentence(doc, rng):
    """(input text, content tokens the AST must hold in order) by expanding the document from
    its first rule; content tokens are numbered, so they are pairwise distinct."""
    rules = {r["name"]: r for r in doc["rules"]}
    out = []      # (text, counted)
    n = [0]

    def tok(name, counted):
        n[0] += 1
        if name == "Comma":
            out.append((",", False))
        elif name == "Semi":
            out.append((";", False))
        elif name == "Num":
            out.append((str(n[0]), counted))
        else:
            out.append(("%s%d" % (name[1].lower(), n[0]), counted))

    def sym(ref, counted):
        if ref == "EMPTY":
            return
        if ref in rules:
            alt = rng.choice(rules[ref]["alts"])
            for x in alt["syms"]:
                use(x, counted)
        else:
            tok(ref, counted)

    def use(x, counted):
        counted = counted and not x.get("bool")
        if x["op"] == "":
            sym(x["ref"], counted)
        elif x["op"] == "?":
            if rng.random() < 0.6:
                sym(x["ref"], counted)
        else:
            k = rng.choice([0, 1, 2, 3]) if x["op"] == "*" else rng.choice([1, 1, 2, 3])
            for i in range(k):
                if i > 0 and x["sep"]:
                    tok(x["sep"], counted)
                sym(x["ref"], counted)
    sym(doc["rules"][0]["name"], True)
    return (" ".join(t for t, c in out), [t for t, c in out if c and t not in (",", ";")],
            [t for t, c in out if t not in (",", ";")])


def stage_ast(work, tier, seed):
    """C10 + C11: generated parser + generated actions (default builder) for the
    shape space x settings: rustc must accept them (C11) and the value returned must
    carry every content token once, in input order (C10)."""
    import re as _re
    from . import vgen
    insts = []
    k = 0
    combos = [dict(algo="lr"), dict(algo="glr"), dict(algo="lr", tt="rn"), dict(algo="lr", loc_info=True),
              dict(algo="glr", loc_info=True, gen="arrays"), dict(algo="lr", gen="arrays"),
              dict(algo="lr", fancy=True), dict(algo="glr", builder="generic"), dict(algo="lr", builder="generic", gen="arrays"),
              dict(algo="lr", builder="custom"), dict(algo="glr", builder="custom"),
              dict(algo="lr", lexer="custom"), dict(algo="glr", lexer="custom", loc_info=True)]
    all_combos = combos
    if tier == "quick":
        combos = combos[:5] + combos[7:8] + combos[9:10] + combos[11:12]
    for name, text, inputs, nones in AST_SHAPES:
        # every settings combination on a few representative shapes (only string terminals,
        # strings and regexes, a Layout rule, optional parts), the reduced list elsewhere
        shape_combos = all_combos if name in ("all_const", "calc", "layout", "optional", "kw_str_terms") else combos
        if name == "regex_empty_match":
            shape_combos = combos[:2] + [dict(algo="lr", lm=False), dict(algo="glr", lm=False)]
        for ci, st in enumerate(shape_combos):
            k += 1
            st2 = dict(st)
            st2.setdefault("builder", "default")
            extra = []
            if st2["builder"] == "custom":
                continue_custom = True
            if st2.get("lexer") == "custom":
                extra.append(("g_lexer", "pub type Input = str;\n"))
            insts.append({"name": "a%d" % k, "shape": name, "grammar": text, "settings": st2, "inputs": inputs,
                          "nones": nones, "table": None, "extra_mods": extra, "combo": ci})
    # corpus grammars with every terminal turned into a content terminal /<letter>\d*/ and
    # sentences whose tokens are numbered (a1 b2 a3 ...): pairwise distinct content tokens
    rng = random.Random(seed * 29 + 7)
    cor = [c for c in corpus(tier, seed) if "meta" not in c[2]]
    pick = rng.sample(cor, min(40 if tier == "quick" else 400, len(cor)))
    for gid, g, tags in pick:
        g2 = {"rules": g["rules"], "terms": [[t[0], "re", t[3] + "\\d*", t[3], None, None] for t in g["terms"]]}
        text = G.render(g2)
        r2 = random.Random("ast-%s-%d" % (gid, seed))
        inputs = []
        for toks, kind in gen_inputs(g, r2, 4, 0):
            if kind != "sentence" or len(toks) > 9:
                continue
            lex = G.lexeme_of(g)
            inputs.append(" ".join("%s%d" % (lex[t], i + 1) for i, t in enumerate(toks)))
        # LR without the silent shift-over-EMPTY preference (a grammar that needs it does not have
        # the language the sentences were drawn from)
        for st in (dict(algo="lr", pse=False), dict(algo="glr")):
            k += 1
            insts.append({"name": "a%d" % k, "shape": "corpus:" + gid, "grammar": text,
                          "settings": dict(st, builder="default"), "inputs": inputs, "nones": None,
                          "table": None, "extra_mods": [], "combo": 0, "sentences_only": True,
                          "cyclic": G.is_cyclic(g)})
    # sugar-rich documents with numbered content tokens: the sentence generator knows which
    # tokens the AST must hold (C10) for repetitions, separators, optionals, names and ?= flags
    rnga = random.Random(seed * 71 + 13)
    for i in range(120 if tier == "quick" else 800):
        doc = ast_doc(rnga)
        text = render_ast_doc(doc)
        sents = [ast_doc_sentence(doc, rnga) for _ in range(3)]
        # LR without the silent shift-over-EMPTY preference: a grammar that needs it is not the
        # language of the document any more (that is C05's business)
        for st in (dict(algo="lr", pse=False), dict(algo="glr")) if i % 3 == 0 else (dict(algo="lr", pse=False),):
            k += 1
            insts.append({"name": "a%d" % k, "shape": "sugar:%d" % i, "grammar": text,
                          "settings": dict(st, builder="default"), "inputs": [x[0] for x in sents],
                          "wants": [x[1] for x in sents], "alls": [x[2] for x in sents],
                          "cyclic": G.text_is_cyclic(text),
                          "nones": None, "table": None, "extra_mods": [],
                          "combo": 0, "sentences_only": True})
    # generated documents of the grammar language (compile check only: no inputs)
    rngd = random.Random(seed * 53 + 11)
    gcombos = [dict(algo="lr"), dict(algo="glr"), dict(algo="lr", tt="rn"), dict(algo="glr", loc_info=True),
               dict(algo="lr", loc_info=True, gen="arrays"), dict(algo="glr", gen="arrays")]
    for i in range(150 if tier == "quick" else 800):
        k += 1
        insts.append({"name": "a%d" % k, "shape": "gen:%d" % i, "grammar": G.docgen(rngd),
                      "settings": dict(gcombos[i % len(gcombos)], builder="default"), "inputs": [], "nones": None,
                      "table": None, "extra_mods": [], "combo": 0, "sentences_only": True})
    # one parser object reused for all inputs of an instance, after failed parses (LR, default builder)
    for inst in insts:
        if inst["settings"]["algo"] == "lr" and inst["settings"].get("builder") == "default" and inst["inputs"] \
                and not inst["settings"].get("lexer"):
            inst["session"] = True
    # tables are needed for the query/run module (names of enum variants): dump with the same settings
    cases = []
    for inst in insts:
        st = inst["settings"]
        cfgv = {"algo": st["algo"]}
        if "tt" in st:
            cfgv["tt"] = st["tt"]
        cases.append({"id": inst["name"], "grammar": inst["grammar"], "cfg": cfgv,
                      "meta": {"nodis": False, "plain": False}})
    pres = run.run_vdrive(work, "ast", cases, shards=4)
    dumps = {}
    for p in pres:
        for d in run.read_ndjson(p + ".dumps.ndjson"):
            dumps[d["id"]] = d["t"]
    for inst in insts:
        t = dumps.get(inst["name"])
        if t is not None and inst["settings"]["builder"] != "custom" and inst["settings"].get("lexer") != "custom":
            inst["table"] = t
    res = vgen.build(work, insts)
    recs = []
    c11 = []
    c15 = []
    ngen = 0
    for inst in insts:
        r = res[inst["name"]]
        iid = "%s|%s" % (inst["shape"], "/".join("%s=%s" % kv for kv in sorted(inst["settings"].items())))
        if r["generated"] == "panic" or r["generated"] == "crash":
            c11.append(dict(id=iid, what=[["compiler_aborts", r["msg"][:150]]], grammar=inst["grammar"]))
            continue
        if r["generated"] != "ok":
            continue  # rejected by the compiler with a diagnostic (e.g. LR conflicts): not "accepted"
        ngen += 1
        gen_errs = [e for e in r["rustc"] if e["file"] in ("g", "g_actions")]
        my_errs = [e for e in r["rustc"] if e["file"] not in ("g", "g_actions")]
        if gen_errs:
            c11.append(dict(id=iid, what=[["rustc_rejects_generated_code", e["file"], e["code"], e["msg"][:120]] for e in gen_errs[:3]],
                            grammar=inst["grammar"], rustc=gen_errs))
            continue
        if my_errs:
            run.log("query module of %s does not compile: %s" % (iid, my_errs[:2]))
            continue
        if inst["settings"]["builder"] != "default" or inst["table"] is None:
            continue
        runs = list(zip(inst["inputs"], r["runs"], [False] * len(inst["inputs"])))
        if inst.get("session") and len(r.get("session", [])) == len(inst["inputs"]):
            # the same inputs through the reused parser: judged like the single-shot results
            runs += list(zip(inst["inputs"], r["session"], [True] * len(inst["inputs"])))
        elif inst.get("session") and r.get("session") and r["session"][0] in ("panic", "hang", "crash"):
            # the whole session ended abnormally: every input of it counts
            runs += [(x, r["session"][0], True) for x in inst["inputs"]]
        for jj, (inp, out, reused) in enumerate(runs):
            j = jj % len(inst["inputs"])
            if "wants" in inst:
                want = inst["wants"][j]
            elif inst["shape"].startswith("corpus:"):
                want = inp.split()
            else:
                want = _re.findall(r"\d+|[a-z]+", inp.split("//")[0] + " " + " ".join(x.split("\n", 1)[1] if "\n" in x else ""
                                                                                     for x in inp.split("//")[1:]))
            if inst["shape"] == "bool_assign":
                want = [w for w in want if w.isdigit()]
            if inst["shape"] == "all_const":
                want = []
            if out in ("crash", "hang", "panic"):
                # C15's concern (e.g. finding C15-F1); reported there
                c15.append(dict(id=iid, what=[[out, inp[:40]]], grammar=inst["grammar"],
                                cyclic=bool(inst.get("cyclic"))))
                continue
            body = out
            ok = out.startswith("ok")
            if ok and inst["settings"]["algo"] == "glr":
                body = out.split(";;")[0]
                body = body.split(" ", 2)[2] if body.count(" ") >= 2 else ""
            got = _re.findall(r'"((?:[^"\\]|\\.)*)"', body) if ok else []
            recs.append({"id": iid + ("+reuse" if reused else ""), "input": inp, "res": "ok" if ok else out[:120],
                         "want": want, "got": got,
                         "all": inst["alls"][j] if "alls" in inst else want,
                         "wnone": inst["nones"][j] if inst["nones"] else -1, "gnone": len(_re.findall(r"\bNone\b", body))})
    rp = work.path("ast", "recs.ndjson")
    with open(rp, "w") as f:
        for x in recs:
            f.write(json.dumps(x) + "\n")
    r = run.run_tlc(work, "CheckAst", "CheckAst.cfg", {"RECS": rp}) if recs else {"verdicts": [], "distinct": 0, "states": 0}
    verdicts = r["verdicts"]
    gt = {}
    for inst in insts:
        gt["%s|%s" % (inst["shape"], "/".join("%s=%s" % kv for kv in sorted(inst["settings"].items())))] = inst["grammar"]
        gt["%s|%s+reuse" % (inst["shape"], "/".join("%s=%s" % kv for kv in sorted(inst["settings"].items())))] = inst["grammar"]
    return {"verdicts": [v for v in verdicts if v["bad"]], "c11": c11, "c15": c15, "gtext": gt,
            "states": r["distinct"], "transitions": r["states"],
            "ncases": len(insts), "ngenerated": ngen, "ntraces": len(verdicts),
            "nshapes": len(AST_SHAPES), "ncombos": len(combos),
            "samples": [dict(id=x["id"], input=x["input"], want=x["want"], got=x["got"]) for x in recs[:120:50]]}



def stage_mci_glr(work, tier, seed):
    """TLC explores GLRRuntime over the real dumped LALR_RN tables for every token
    string up to MAXLEN (MCI_GLR)."""
    tab = get(work, "tables", tier, seed)
    maxlen = 4 if tier == "quick" else 5
    cases = []
    gtext = {}
    # the exploration visits every token string up to maxlen: about nterm^maxlen states per
    # table, each a whole GLR frontier.  A budget on that estimate keeps the stage within
    # minutes: curated and structured grammars first, then a seeded sample of the others.
    budget = 400000 if tier == "quick" else 500000
    cand = [c for c in corpus(tier, seed)
            if "meta" not in c[2] and len(c[1]["terms"]) <= (3 if tier == "quick" else 4)
            and tab["nodis"].get("%s|rn" % c[0]) is not None]
    first = [c for c in cand if "curated" in c[2]]
    rest = [c for c in cand if "curated" not in c[2]]
    random.Random(seed * 97 + 3).shuffle(rest)
    chosen = []
    for c in first + rest:
        cost = sum(max(1, len(c[1]["terms"])) ** k for k in range(maxlen + 1))
        if cost > budget:
            continue
        budget -= cost
        chosen.append(c)
    for gid, g, tags in chosen:
        text = G.render(g)
        cid = "%s|rn" % gid
        gtext[cid] = text
        cases.append({"id": cid, "grammar": text, "cfg": {"algo": "glr"},
                      "meta": {"nodis": False, "plain": True}})
    pres = run.run_vdrive(work, "mci_glr", cases, shards=4)
    allp = work.path("mci_glr", "all")
    lifop = work.path("mci_glr", "lifo")
    n = 0
    lifo_budget = 250000
    with open(allp + ".dumps.ndjson", "w") as f, open(lifop + ".dumps.ndjson", "w") as fl:
        for p in pres:
            for d in run.read_ndjson(p + ".dumps.ndjson"):
                f.write(json.dumps(d) + "\n")
                n += 1
                cost = sum(max(1, d["t"]["nterm"] - 1) ** k for k in range(maxlen + 1))
                if cost <= lifo_budget:
                    lifo_budget -= cost
                    fl.write(json.dumps(d) + "\n")
    r = run.run_tlc(work, "MCI_GLR", "MCI_GLR.cfg",
                    {"DUMPS": allp + ".dumps.ndjson", "MAXLEN": str(maxlen)},
                    workers=run.NCPU, timeout=3000)
    # design level: the same exploration with the reducer's work list popped LIFO; the forest
    # must not depend on the processing order (reported as a divergence, never a verdict:
    # the code pops FIFO)
    lifo = run.run_tlc(work, "MCI_GLR", "MCI_GLR_lifo.cfg",
                       {"DUMPS": lifop + ".dumps.ndjson", "MAXLEN": str(maxlen)}, workers=run.NCPU, timeout=3000)
    return {"verdicts": r["verdicts"], "gtext": gtext, "states": r["distinct"] + lifo["distinct"],
            "transitions": r["states"] + lifo["states"],
            "divergences": ["forest depends on the reducer's pop order (LIFO): %s w=%s" % (v["id"], v["w"])
                            for v in lifo["verdicts"]][:10],
            "ntables": n, "maxlen": maxlen,
            "samples": [dict(table=c["id"], grammar=c["grammar"]) for c in cases[:2]]}



def stage_mc_automaton(work, tier, seed):
    """Design level C04: Automaton.tla with the work list popped in ANY order, for the
    small grammars of the corpus and the three table types (MC_Automaton)."""
    maxstates = 7 if tier == "quick" else 9
    cases = []
    for gid, g, tags in corpus(tier, seed):
        if "meta" in tags or not ({"family", "curated"} & tags):
            continue
        text = G.render(g)
        for tt in ("lalr", "pager", "rn"):
            cases.append({"id": "%s|%s" % (gid, tt), "grammar": text,
                          "cfg": {"algo": "glr", "tt": tt, "raw": True, "ps": False, "pse": False},
                          "meta": {"nodis": False, "plain": True}})
    pres = run.run_vdrive(work, "mc_automaton", cases, shards=4)
    allp = work.path("mc_automaton", "all.dumps.ndjson")
    n = 0
    with open(allp, "w") as f:
        for p in pres:
            for d in run.read_ndjson(p + ".dumps.ndjson"):
                if len(d["t"]["states"]) <= maxstates and d["t"]["augl"] < 0:
                    f.write(json.dumps(d) + "\n")
                    n += 1
    r = run.run_tlc(work, "MC_Automaton", "MC_Automaton.cfg", {"DUMPS": allp, "MAXSTATES": str(maxstates)},
                    workers=run.NCPU, timeout=3000)
    return {"verdicts": r["verdicts"], "states": r["distinct"], "transitions": r["states"], "ntables": n,
            "maxstates": maxstates, "samples": [dict(table=c["id"], grammar=c["grammar"]) for c in cases[:1]]}



SET_ALPHABET = [["parser_algo", "glr"], ["parser_algo", "lr"], ["table_type", "lalr"], ["table_type", "pager"],
                ["table_type", "rn"], ["prefer_shifts", True], ["prefer_shifts_over_empty", False],
                ["most_specific", False], ["longest_match", False], ["grammar_order", True], ["grammar_order", False],
                ["partial_parse", True], ["skip_ws", False], ["generator_table_type", "arrays"],
                ["builder_type", "generic"], ["builder_type", "default"], ["builder_loc_info", True], ["force", True],
                ["force", False], ["actions_in_source_tree", True]]


def stage_settings(work, tier, seed):
    """Settings call sequences on the real API (fresh processes) vs Settings.tla."""
    import re as _re
    import subprocess
    from concurrent.futures import ThreadPoolExecutor
    rng = random.Random(seed * 41 + 9)
    base = os.path.dirname(work.path("settings", "x", "y"))
    grammars = {"plain": (DET_GRAMMARS["list"], False), "layout": (DET_GRAMMARS["layout"], True)}
    jobs = []
    n = 120 if tier == "quick" else 800
    for i in range(n):
        calls = [rng.choice(SET_ALPHABET) for _ in range(rng.randint(1, 5))]
        jobs.append((i, "plain" if i % 4 else "layout", calls))

    def one(job):
        i, gname, calls = job
        d = os.path.join(base, "s%d" % i)
        os.makedirs(d, exist_ok=True)
        gp = os.path.join(d, "g.rustemo")
        open(gp, "w").write(grammars[gname][0])
        rq = os.path.join(d, "req.json")
        json.dump({"grammar_path": gp, "out_dir": os.path.join(d, "out"), "calls": calls,
                   "result_path": os.path.join(d, "res.json")}, open(rq, "w"))
        try:
            subprocess.run([run.vhist_bin(), "api-seq", rq], capture_output=True, text=True, env=run.clean_env(), timeout=120)
            res = json.load(open(os.path.join(d, "res.json")))
        except Exception:
            res = {"outcome": "crash"}
        obs = {"algo": "", "lm": False, "go": False, "partial": False, "skip_ws": False, "gen": "", "builder": ""}
        pf = os.path.join(d, "out", "g.rs")
        if res["outcome"] == "ok" and os.path.exists(pf):
            t = open(pf).read()
            obs["algo"] = "glr" if "GlrParser::new" in t else "lr"
            m = _re.search(r"fn longest_match\(\) -> bool \{\s*(true|false)", t)
            obs["lm"] = bool(m and m.group(1) == "true")
            m = _re.search(r"fn grammar_order\(\) -> bool \{\s*(true|false)", t)
            obs["go"] = bool(m and m.group(1) == "true")
            m = _re.search(r"StringLexer::new\(\s*(true|false)", t)
            obs["skip_ws"] = bool(m and m.group(1) == "true")
            if obs["algo"] == "glr":
                m = _re.search(r"GlrParser::new\(\s*&PARSER_DEFINITION,\s*(true|false)", t)
            else:
                m = _re.search(r"LRParser::new\(\s*&PARSER_DEFINITION,\s*State::default\(\),\s*(true|false)", t)
            obs["partial"] = bool(m and m.group(1) == "true")
            obs["gen"] = "functions" if "type ActionFn" in t else "arrays"
            obs["builder"] = "default" if "pub struct DefaultBuilder" in t else "generic"
        return {"id": "set:%d" % i, "calls": calls, "has_layout": grammars[gname][1], "outcome": res["outcome"], "obs": obs}
    with ThreadPoolExecutor(max_workers=run.NCPU) as ex:
        recs = list(ex.map(one, jobs))
    rp = work.path("settings", "recs.ndjson")
    with open(rp, "w") as f:
        for r in recs:
            f.write(json.dumps(r) + "\n")
    r = run.run_tlc(work, "CheckSettings", "CheckSettings.cfg", {"RECS": rp})
    mc = run.run_tlc(work, "MC_Settings", "MC_Settings.cfg", {}, workers=4)
    calls_of = {x["id"]: x["calls"] for x in recs}
    return {"verdicts": [], "divergences": ["Settings model differs: %s calls=%s %s" % (v["id"], calls_of[v["id"]], v["div"])
                                            for v in r["verdicts"] if v["div"]][:20],
            "states": r["distinct"] + mc["distinct"], "transitions": r["states"] + mc["states"],
            "ncases": len(recs), "ntraces": len(recs),
            "samples": [dict(calls=x["calls"], outcome=x["outcome"], observed=x["obs"]) for x in recs[:2]]}


STAGES = {"settings": stage_settings, "mc_automaton": stage_mc_automaton, "mci_glr": stage_mci_glr, "ast": stage_ast, "codegen": stage_codegen, "builder": stage_builder, "determinism": stage_determinism, "regen": stage_regen, "pipeline": stage_pipeline, "lex": stage_lex, "resolve": stage_resolve, "prec": stage_prec, "tables": stage_tables, "lr": stage_lr, "mci_lr": stage_mci_lr, "glr": stage_glr}


# ---------------------------------------------------------------------------
class Context:
    def __init__(self, res):
        self.res = res

    def grammar(self, stage, cid):
        st = self.res[stage]
        if cid in st.get("texts", {}):
            return st["texts"][cid]
        gt = st.get("gtext", {})
        return gt.get(cid) or gt.get(cid.rsplit("|", 1)[0]) or ""

    def replay_payload(self, prop, v):
        cid = v["id"]
        p = {"property": prop, "stage": v["stage"], "id": cid, "kind": v.get("kind"),
             "what": v["what"], "grammar": self.grammar(v["stage"], cid),
             "tt": cid.rsplit("|", 1)[-1]}
        if "steps" in self.res[v["stage"]]:
            p["steps"] = self.res[v["stage"]]["steps"].get(cid)
        if "iid" in v:
            inp = self.res[v["stage"]].get("inputs", {}).get("%s#%d" % (cid, v["iid"]))
            if inp:
                p["input"], p["lex"] = inp
            p["partial"] = v.get("partial", False)
        if "w" in v:
            p["w"] = v["w"]
            p["la"] = v["la"]
        return p


PREDICATES = {}


def coverage(prop, res, stage_names):
    cov = {"states": 0, "transitions": 0, "traces_validated_against_impl": 0, "samples": [],
           "bounds": {}, "per_stage": {}}
    for st in stage_names:
        r = res[st]
        cov["states"] += r.get("states", 0)
        cov["transitions"] += r.get("transitions", 0)
        cov["traces_validated_against_impl"] += r.get("ntraces", 0) + r.get("ndumps", 0)
        cov["samples"] += r.get("samples", [])[:3]
        cov["per_stage"][st] = {k: r[k] for k in ("ncases", "ndumps", "ntraces", "nok", "nsent", "nevents",
                                                   "ntables", "maxlen", "wall", "nambiguous", "ninscope", "nlrglr",
                                                   "ncells_exercised", "ngrammars_with_conflicts",
                                                   "mc_lex_configurations", "mc_lex_ok", "nmulti_survivors",
                                                   "outcomes", "mc_pipeline_ok", "mc_regen_ok", "nregenerations", "nkeys", "nsugar_uses", "nrejected", "programs", "nqueries", "nruns", "npaired", "ngenerated", "nshapes", "ncombos", "nmodel_runs", "npartial", "nlayout_twins", "nautomata_reproduced", "ntwins", "npath", "maxstates", "nreplayed", "nbehaviours") if k in r}
        cov["per_stage"][st]["divergences"] = len(r.get("divergences", []))
        b = {}
        for k2 in ("maxlen", "maxstates", "ncases", "ntables", "nshapes", "ncombos"):
            if k2 in r:
                b[k2] = r[k2]
        cov["bounds"][st] = b
    cov["bounds"]["corpus"] = ("curated + annotated + structured cycle/chain family + Fam(2,2,3,2)/Fam(1,2,3,3) slices "
                               "+ seeded random grammars (<=5 nonterminals, <=5 terminals, <=12 productions, |rhs|<=5); "
                               "inputs <= 14 tokens in traces")
    cov["states"] = max(cov["states"], 1)
    cov["transitions"] = max(cov["transitions"], 1)
    return cov


def replay_case(work, prop, payload):
    """Re-runs one recorded case through the real code and the TLA+ monitors."""
    from . import props
    stage = payload["stage"]
    tt = payload.get("tt", "pager")
    if stage == "tables":
        case = {"id": payload["id"], "grammar": payload["grammar"],
                "cfg": {"algo": "glr", "tt": tt, "raw": True, "ps": False, "pse": False},
                "meta": {"nodis": False, "plain": False}}
        pres = run.run_vdrive(work, "replay", [case], shards=1)
        rs = table_shards(work, "replay", pres, "full")
        v = [x for r in rs for x in r["verdicts"]]
        res = {"tables": {"verdicts": v, "wf": [dict(id=x["id"], wf=x["wf"]) for x in v]}}
        res["mci_lr"] = {"verdicts": []}
        res["lr"] = {"verdicts": [], "wf": []}
    elif stage == "lr":
        # scope needs the raw conflict count of the same grammar / table type
        raw = {"id": payload["id"], "grammar": payload["grammar"],
               "cfg": {"algo": "glr", "tt": tt, "raw": True, "ps": False, "pse": False},
               "meta": {"nodis": False, "plain": False}}
        pres = run.run_vdrive(work, "replay-raw", [raw], shards=1)
        rs = table_shards(work, "replay-raw", pres, "full")
        tv = [x for r in rs for x in r["verdicts"]]
        nod = bool(tv and tv[0]["nconf"] == 0)
        ins = [{"iid": 1, "text": payload["input"], "lex": payload["lex"], "partial": p, "meta": {}}
               for p in (False, True)]
        case = {"id": payload["id"], "grammar": payload["grammar"], "cfg": {"algo": "lr", "tt": tt},
                "meta": {"nodis": nod, "plain": False}, "inputs": ins}
        pres = run.run_vdrive(work, "replay", [case], shards=1)
        rs = run.run_tlc_shards(work, "TraceLR", "TraceLR.cfg",
                                [{"DUMPS": pres[0] + ".dumps.ndjson", "TRACES": pres[0] + ".traces.ndjson"}])
        res = {"lr": {"verdicts": [x for r in rs for x in r["verdicts"]], "wf": []},
               "tables": {"verdicts": tv, "wf": []}, "mci_lr": {"verdicts": []}}
    else:
        raise run.ToolError("replay of stage %s not supported yet" % stage)
    return [v for v in props.PROPS[prop]["viol"](res) if not props.known_match(prop, v, Context(res))]
