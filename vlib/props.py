"""Per-property logic: which stages a property needs, how verdict records
printed by TLC become violations, known-finding matching, evidence."""
import json
import os
import random
import time

from . import grammars as G
from . import run
from . import stages

LEVEL_NOTE = "TLC evaluates the TLA+ monitors; oracle modules and the harness projection are trusted"


def out(line):
    print(line, flush=True)


# property -> (stages used, extractor)
def _table_viol(prop):
    def f(res):
        v = []
        for r in res["tables"]["verdicts"]:
            if prop == "C04":
                if r["disc"]:
                    v.append(dict(stage="tables", id=r["id"], what=r["disc"][:6], kind="faithful"))
                if not r["lalr_ok"]:
                    v.append(dict(stage="tables", id=r["id"], what=[["lalr1_grammar_has_conflicts", r["nconf"]]],
                                  kind="lalr_ok"))
            if prop == "C03" and r["rnmiss"]:
                v.append(dict(stage="tables", id=r["id"], what=r["rnmiss"][:6], kind="rn_complete"))
        return v
    return f


def _abs_viol(res):
    """The grammar the tables were built from is not the grammar that was written: every
    language oracle works on the built grammar, so this is reported with the language properties."""
    return [dict(stage="tables", id=r["id"], what=r["absdiff"][:6], kind="built_grammar")
            for r in res["tables"]["verdicts"] if r.get("absdiff")]


def _wf_viol(res, prop):
    v = []
    for r in res["tables"]["wf"]:
        if r["wf"]:
            v.append(dict(stage="tables", id=r["id"], what=r["wf"][:6], kind="tablewf"))
    return v


def _trace_viol(res, stage, field):
    v = []
    for r in res[stage]["verdicts"]:
        d = r["mon"].get(field)
        if d:
            v.append(dict(stage=stage, id=r["id"], iid=r["iid"], what=d[:6], kind=field,
                          partial=r.get("partial", False), cyclic=r["mon"].get("cyclic"),
                          n=r["mon"].get("n"), model=(r["mon"].get("opmodel") or {}).get("k")))
    return v


def _replay_viol(res, field):
    v = []
    for r in res["mci_lr"].get("replay_verdicts", []):
        d = r["mon"].get(field)
        if d:
            v.append(dict(stage="mci_lr", id=r["id"], iid=r["iid"], what=d[:6], kind="replay:" + field))
    return v


def _mci_viol(res, stage, prop):
    return [dict(stage=stage, id=r["id"], what=[[r["what"]]], w=r["w"], la=r["la"], kind="mci:" + r["what"])
            for r in res[stage]["verdicts"] if r["prop"] == prop]


def _c05_viol(res):
    v = []
    for r in res["resolve"]["verdicts"]:
        if r["bad"]:
            metas = [b for b in r["bad"] if b and b[0] == "meta_data_not_as_written"]
            v.append(dict(stage="resolve", id=r["id"],
                          what=[list(b) for b in metas[:3]] or [["cell_not_resolved_as_documented"]],
                          kind="cell", cells=r["bad"][:2], cfg=r["cfg"]))
    for st in ("resolve", "prec"):
        for e in res[st]["errs"]:
            if e["cls"] in ("panic", "crash"):
                v.append(dict(stage=st, id=e["id"], what=[["compiler_aborts_while_resolving", e["msg"][:120]]],
                              kind="abort", cfg=e["cfg"]))
    for r in res["prec"]["verdicts"]:
        if r["bad"]:
            v.append(dict(stage="prec", id=r["id"], iid=r["iid"], what=r["bad"], kind="prec"))
    if res["prec"].get("ngrammars_with_conflicts"):
        v.append(dict(stage="prec", id="*", what=[["annotated_operator_grammar_still_has_conflicts",
                                                    res["prec"]["ngrammars_with_conflicts"]]], kind="prec_conf"))
    return v


def _c06_viol(res):
    v = []
    for r in res["lex"]["verdicts"]:
        if r["bad"]:
            v.append(dict(stage="lex", id=r["id"], iid=r["iid"], what=r["bad"][:4], kind="lex"))
    if not res["lex"]["mc_lex_ok"]:
        v.append(dict(stage="lex", id="MC_Lex", what=[["LexOrder_disagrees_with_LexDoc"]], kind="mc_lex"))
    return v


def _c16_viol(res):
    v = []
    for r in res["pipeline"]["verdicts"]:
        if r["bad"]:
            v.append(dict(stage="pipeline", id=r["id"], what=[list(b)[:3] for b in r["bad"]][:3], kind="pipeline:" + r["via"]))
    if not res["pipeline"]["mc_pipeline_ok"]:
        v.append(dict(stage="pipeline", id="MC_Pipeline", what=[["pipeline_model_not_total"]], kind="mc"))
    # the compiler runs of the other stages are executions of the same pipeline: a panic,
    # crash or hang there is the same violation
    for e in res["tables"].get("errs", []):
        if e["cls"] in ("panic", "crash", "hang"):
            v.append(dict(stage="tables", id=e["id"], what=[["compiler_aborts", e["cls"], e["msg"][:120]]], kind="abort"))
    for e in res["builder"].get("aborts", []):
        v.append(dict(stage="builder", id=e["id"], what=[["compiler_aborts", e["cls"], e["msg"][:120]]], kind="abort"))
    return v


def _c18_viol(res):
    v = []
    for r in res["regen"]["verdicts"]:
        if r["bad"]:
            v.append(dict(stage="regen", id=r["id"], what=[list(b)[1:3] for b in r["bad"]][:4], kind="regen"))
    if not res["regen"]["mc_regen_ok"]:
        v.append(dict(stage="regen", id="MC_Regen", what=[["regen_model_violates_property"]], kind="mc"))
    return v


def _c17_viol(res):
    v = []
    st = res["determinism"]
    seen = set()
    for b in st.get("bad", []):
        a, c = b[0], b[1]
        key = (a.split("/")[0], a.split("/")[1], b[2], b[3])
        if key in seen:
            continue
        seen.add(key)
        v.append(dict(stage="determinism", id=a, what=[["outputs_differ", a, c]], kind="det:%s-%s" % (b[2], b[3]),
                      events=[st["events"].get(a), st["events"].get(c)]))
    return v


def _c09_viol(res):
    v = [dict(stage="builder", id=r["id"], what=[list(b)[:6] for b in r["bad"]][:4], kind="builder")
         for r in res["builder"]["verdicts"] if r["bad"]]
    # what the table generator analysed: the automaton of a decorated text (EMPTY references,
    # named / bool assignments) against the automaton of the plain text of the same grammar,
    # and the built grammar against the abstract grammar the text was rendered from
    v += [dict(stage="tables", id=r["id"], what=r["twindiff"][:6], kind="decoration_twin")
          for r in res["tables"]["verdicts"] if r.get("twindiff")]
    return v + _abs_viol(res)


def _c08_viol(res):
    v = [dict(stage="codegen", id=r["id"], what=[list(b)[:4] for b in r["bad"]][:4], kind="codegen")
         for r in res["codegen"]["verdicts"] if r["bad"]]
    return v


def _c10_viol(res):
    return [dict(stage="ast", id=r["id"], what=[list(b)[:3] for b in r["bad"]][:3], kind="ast", input=r["input"])
            for r in res["ast"]["verdicts"] if r["bad"]]


def _gen_c15(res):
    """Generated parsers (vgen) that hang, panic or abort while parsing."""
    v = []
    for r in res["ast"].get("c15", []):
        v.append(dict(stage="ast", id=r["id"], what=[[w[0]] for w in r["what"]], kind="c15", cyclic=r.get("cyclic"), n=None))
    return v


def _c11_viol(res):
    v = [dict(stage="ast", id=r["id"], what=r["what"], kind="rustc", rustc=r.get("rustc")) for r in res["ast"]["c11"]]
    for r in res["codegen"]["rustc"]:
        v.append(dict(stage="codegen", id=r["id"], what=[["rustc_rejects_generated_code", e["file"], e["code"], e["msg"][:120]]
                                                          for e in r["errs"][:3]], kind="rustc"))
    return v


PROPS = {
    "C10": dict(stages=["ast"], viol=_c10_viol),
    "C11": dict(stages=["ast", "codegen"], viol=_c11_viol, level="exploration"),
    "C08": dict(stages=["codegen"], viol=_c08_viol),
    "C09": dict(stages=["builder", "tables"], viol=_c09_viol),
    "C17": dict(stages=["determinism", "settings"], viol=_c17_viol),
    "C18": dict(stages=["regen"], viol=_c18_viol),
    "C16": dict(stages=["pipeline", "tables", "builder"], viol=_c16_viol),
    "C06": dict(stages=["lex"], viol=_c06_viol),
    "C05": dict(stages=["tables", "resolve", "prec"], viol=_c05_viol),
    "C01": dict(stages=["tables", "lr", "mci_lr"],
                viol=lambda res: _trace_viol(res, "lr", "c01") + _mci_viol(res, "mci_lr", "C01") + _replay_viol(res, "c01")
                + _abs_viol(res)),
    "C02": dict(stages=["tables", "lr", "mci_lr"],
                viol=lambda res: _trace_viol(res, "lr", "c02") + _mci_viol(res, "mci_lr", "C02") + _replay_viol(res, "c02")
                + _wf_viol(res, "C02")),
    "C03": dict(stages=["tables", "glr", "mci_glr"],
                viol=lambda res: _trace_viol(res, "glr", "c03") + _table_viol("C03")(res)
                + _mci_viol(res, "mci_glr", "C03") + _abs_viol(res)),
    "C07": dict(stages=["tables", "glr", "lex"],
                viol=lambda res: _trace_viol(res, "glr", "c07")
                + [dict(stage="lex", id=r["id"], iid=r["iid"], what=r["c07"][:4], kind="lex_c07")
                   for r in res["lex"]["verdicts"] if r.get("c07")]),
    "C04": dict(stages=["tables", "mci_lr", "mc_automaton"],
                viol=lambda res: _table_viol("C04")(res) + _mci_viol(res, "mci_lr", "C04")
                + _mci_viol(res, "mc_automaton", "C04")),
    "C12": dict(stages=["tables", "lr", "mci_lr", "glr"],
                viol=lambda res: _trace_viol(res, "lr", "c12") + _mci_viol(res, "mci_lr", "C12") + _replay_viol(res, "c12")
                + _trace_viol(res, "glr", "c12")),
    "C13": dict(stages=["tables", "lr", "glr"],
                viol=lambda res: _trace_viol(res, "lr", "c13") + _trace_viol(res, "glr", "c13")),
    "C14": dict(stages=["tables", "lr", "glr"],
                viol=lambda res: _trace_viol(res, "lr", "c14") + _trace_viol(res, "glr", "c14")),
    "C15": dict(stages=["tables", "lr", "mci_lr", "glr", "ast"],
                viol=lambda res: _trace_viol(res, "lr", "c15") + _mci_viol(res, "mci_lr", "C15") + _replay_viol(res, "c15")
                + _trace_viol(res, "glr", "c15") + _gen_c15(res)),
}


_loop_cache = {}


def _model_says_loops(grammar, cfg):
    """Runs MCI_LR (LRRuntime explored by TLC) over the table the real compiler builds
    for exactly this grammar and these settings; True iff the specification itself has a
    run that never shifts."""
    key = json.dumps([grammar, cfg], sort_keys=True)
    if key in _loop_cache:
        return _loop_cache[key]
    work = run.Work()
    try:
        case = {"id": "loopcheck", "grammar": grammar, "cfg": cfg, "meta": {"nodis": False, "plain": False}}
        pre = run.run_vdrive(work, "loopcheck", [case], shards=1)[0]
        r = run.run_tlc(work, "MCI_LR", "MCI_LR.cfg", {"DUMPS": pre + ".dumps.ndjson", "MAXLEN": "3", "REPLAY": "0"},
                        workers=4, timeout=600)
        res = any(x["what"] == "hang" for x in r["verdicts"])
    finally:
        work.cleanup()
    _loop_cache[key] = res
    return res


def _lr_loop_by_disambiguation(v, ctx):
    """Signature of C15-F2: disambiguation took effect for this table (the raw dump of the
    same grammar/table type has conflict cells) AND the specification itself says the table
    loops: Table.EpsLoops is non-empty (TLC on the dumped table) or MCI_LR, exploring
    LRRuntime over the table built for exactly this grammar and these settings, reports a
    run that never shifts."""
    import re
    vid = v["id"]
    base = re.sub(r"(/ps1|/pse0|\+reuse|\+lay:\w+)", "", vid)
    nodis = ctx.res.get("tables", {}).get("nodis", {}).get(base)
    if nodis is not False:
        return False
    if any(w["id"] == vid and w.get("epsloop", 0) > 0 for w in ctx.res.get("lr", {}).get("wf", [])):
        return True
    if base == vid and any(r["id"] == vid and r["what"] == "hang" for r in ctx.res.get("mci_lr", {}).get("verdicts", [])):
        return True
    cfg = {"algo": "lr", "tt": vid.rsplit("|", 1)[1]}
    if "/ps1" in vid:
        cfg["ps"] = True
    if "/pse0" in vid:
        cfg["pse"] = False
    grammar = ctx.grammar("lr", vid) or ctx.grammar("lr", base)
    return bool(grammar) and _model_says_loops(grammar, cfg)


def _rn_indirect_nullable_tail(v, ctx):
    """Signature of C11-F1.  (1) what rustc objects to: only E0308 in the parser file (the
    right-nulled arms of the generated builder), nothing in the actions file; (2) a
    syntactic predicate on the grammar text of the case (repetition operators expanded):
    some production has a nullable tail (all symbols from some position >= 0 on nullable)
    that contains a non-terminal WITHOUT an EMPTY alternative of its own (nullable only
    through other rules), so its AST type is neither Option<..> nor Vec<..>."""
    errs = v.get("rustc") or []
    if errs and not all(e["file"] == "g" and e["code"] == "E0308" for e in errs):
        return False
    text = ctx.grammar(v["stage"], v["id"])
    rules = G.read_rules(text)
    nullable = G.nullable_of(rules)
    direct = {n for n, alts in rules.items() if any(len(a) == 0 for a in alts)}
    strs = G.string_terminals(text)
    # X1: X1 X | X  and  X1: X1 Sep X | X with a separator without content are vectors
    vec_helpers = {n for n, alts in rules.items() if len(alts) == 2 and n.endswith("1") and alts[0][:1] == [n]
                   and alts[1] == alts[0][-1:]
                   and (len(alts[0]) == 2 or (len(alts[0]) == 3 and (alts[0][1] in strs or alts[0][1].startswith(("'", '"')))))}
    for n, alts in rules.items():
        for a in alts:
            for d in range(0, len(a)):
                tail = a[d:]
                if all(x in nullable for x in tail) and any(x not in direct and x not in vec_helpers for x in tail):
                    return True
    return False


def _alias_cycle_only(v, ctx):
    """Signature of C11-F2: rustc objects to nothing but recursive type aliases in the
    generated actions file."""
    errs = v.get("rustc") or []
    return bool(errs) and all(e["file"] == "g_actions" and e["code"] == "E0391"
                              and "expanding type alias" in e["msg"] for e in errs)


def _dup_kind_across_rules(v, ctx):
    """Signature of C11-F3: rustc objects only to items defined twice in the actions file
    (E0428, and E0119 for their derives) and some production kind occurs in two rules."""
    import re
    errs = v.get("rustc") or []
    dup = set()
    for e in errs:
        m_ = re.search(r"the name `(\w+)` is defined multiple times", e["msg"]) if e["code"] == "E0428" else None
        if m_:
            dup.add(m_.group(1))
    # what else rustc says (in the actions file and in the parser that calls it) follows from the
    # double definitions: fields of the "wrong" struct, conflicting derives, recursion through it
    if not dup:
        return False
    text = ctx.grammar(v["stage"], v["id"])
    text = re.sub(r"/\*.*?\*/", " ", text, flags=re.S)
    text = re.sub(r"//[^\n]*", " ", text).split("terminals")[0]
    words = {"left", "right", "reduce", "shift", "dynamic", "nops", "nopse", "true", "false"}
    owners = {}
    for rule in text.split(";"):
        if ":" not in rule:
            continue
        head, body = rule.split(":", 1)
        name = re.sub(r"\{.*?\}", " ", head, flags=re.S).split()
        if not name:
            continue
        # kinds given for the whole rule (inherited by its productions) and per production
        for group in re.findall(r"\{(.*?)\}", head, flags=re.S) + re.findall(r"\{(.*?)\}", body, flags=re.S):
            for part in group.split(","):
                part = part.strip()
                if re.fullmatch(r"[A-Za-z_]\w*", part) and part not in words:
                    owners.setdefault(part, set()).add(name[-1])
    def kind_of(d_):
        return d_ if d_ in owners else (d_[:-4] if d_.endswith("Base") and d_[:-4] in owners else d_)
    return all(len(owners.get(kind_of(d_), ())) > 1 for d_ in dup)


def known_match(prop, v, ctx):
    """Returns the finding id if the violation matches a committed signature."""
    for f in run.load_known().get("findings", []):
        if f["property"] != prop:
            continue
        sig = f.get("match", {})
        if sig.get("kind") and sig["kind"] != v.get("kind"):
            continue
        names = {w[0] for w in v.get("what", []) if w}
        if sig.get("what") and not (set(sig["what"]) & names):
            continue
        if sig.get("only_what") and not names <= set(sig["only_what"]):
            continue
        if sig.get("stage") and sig["stage"] != v.get("stage"):
            continue
        if sig.get("algo") == "glr" and not (v.get("stage") == "glr" or "algo=glr" in v.get("id", "")):
            continue
        if "cyclic" in sig and sig["cyclic"] != v.get("cyclic"):
            continue
        if "partial" in sig and sig["partial"] != v.get("partial"):
            continue
        if "what_exact" in sig and [list(w) for w in v.get("what", [])] != sig["what_exact"]:
            continue
        if "model" in sig and v.get("model") not in sig["model"]:
            continue
        if "min_solutions" in sig and not (v.get("n") or 0) >= sig["min_solutions"]:
            continue
        pred = sig.get("pred")
        if pred == "rn_indirect_nullable_tail":
            if not ("algo=glr" in v["id"] or "tt=rn" in v["id"]) or not _rn_indirect_nullable_tail(v, ctx):
                continue
        elif pred == "dup_kind_across_rules":
            if not _dup_kind_across_rules(v, ctx):
                continue
        elif pred == "alias_cycle_only":
            if not _alias_cycle_only(v, ctx):
                continue
        elif pred == "lr_loop_by_disambiguation":
            if not _lr_loop_by_disambiguation(v, ctx):
                continue
        elif pred and not stages.PREDICATES[pred](v, ctx):
            continue
        return f["id"]
    return None


def check(work, prop, tier, seed, t0):
    if prop not in PROPS:
        raise run.ToolError("no check registered for " + prop)
    spec = PROPS[prop]
    res = {}
    for st in spec["stages"]:
        res[st] = stages.get(work, st, tier, seed)
    viol = spec["viol"](res)
    ctx = stages.Context(res)
    known, fresh = {}, []
    for v in viol:
        k = known_match(prop, v, ctx)
        if k:
            known.setdefault(k, []).append(v)
        else:
            fresh.append(v)
    # report
    for f in run.load_known().get("findings", []):
        if f["property"] == prop:
            n = len(known.get(f["id"], []))
            out("KNOWN-FINDING: property=%s %s: %s (%d matching case(s) in this run)" % (
                prop, f["id"], f["what"], n))
    seen = set()
    nviol = 0
    for v in fresh:
        payload = ctx.replay_payload(prop, v)
        if "events" in v:
            payload["events"] = v["events"]
        if "input" in v:
            payload["input"] = v["input"]
        key = json.dumps([v.get("kind"), sorted(w[0] for w in v["what"] if w), payload.get("grammar")], sort_keys=True)
        if key in seen and nviol >= 20:
            continue
        seen.add(key)
        nviol += 1
        if nviol <= 25:
            path = run.write_replay(prop, payload)
            out("VIOLATION property=%s replay=%s" % (prop, path))
            run.log("  %s %s %s" % (v.get("kind"), v["id"], json.dumps(v["what"])[:300]))
    # evidence
    cov = stages.coverage(prop, res, spec["stages"])
    cov["known_finding_cases"] = sum(len(x) for x in known.values())
    for st in spec["stages"]:
        for dline in res[st].get("divergences", [])[:3]:
            run.log("DIVERGENCE (%s): %s" % (st, dline))
    level = spec.get("level", "model_checking")
    if level == "exploration":
        a = res["ast"]
        cov["evaluations"] = a["ncases"] + res["codegen"]["ncases"]
        cov["distinct_nontrivial"] = a["ngenerated"] + res["codegen"]["programs"]
        cov["rule"] = ("one instance per (grammar shape, settings combination); the shape list enumerates what type "
                       "inference distinguishes (enum/struct/ref/vec/optional, recursion, nullable tails, unreachable "
                       "rules, name collisions, keywords as field names); an instance is non-trivial when the compiler "
                       "accepted it and rustc compiled the generated parser (and actions) in the scratch crate; "
                       "distinct = distinct (shape, settings) pairs")
        cov["explanation"] = "TLA+ does not model Rust's type checker: the specification side contributes the enumeration and the compiler-accepts predicate, rustc is the oracle"
    if prop == "C08":
        cov["programs"] = res["codegen"]["programs"]
        cov["disagreements_checked"] = res["codegen"]["nqueries"]
    run.write_evidence(prop, tier, seed, level, cov, time.time() - t0, len(fresh),
                       [LEVEL_NOTE,
                        "terminal sets of generated grammars are lexically unambiguous, so token-level oracles are exact",
                        "bounds: see coverage.bounds"])
    return 1 if fresh else 0


def replay(work, prop, path):
    payload = json.load(open(path))
    if payload.get("stage") not in ("tables", "lr"):
        # no single-case driver for this stage: re-run the stages the property needs (same
        # tier/seed defaults) and look for the same case again
        spec = PROPS[prop]
        tier = os.environ.get("VERIF_TIER", "quick")
        seed = int(os.environ.get("VERIF_SEED", "1"))
        res = {st: stages.get(work, st, tier if tier in ("quick", "thorough") else "quick", seed) for st in spec["stages"]}
        ctx = stages.Context(res)
        v = [x for x in spec["viol"](res) if x["id"] == payload.get("id") and x.get("kind") == payload.get("kind")
             and not known_match(prop, x, ctx)]
        if v:
            out("VIOLATION property=%s replay=%s" % (prop, path))
            run.log(json.dumps(v[0])[:600])
            return 1
        out("replay: property %s holds for case %s (%s) in this run" % (prop, payload.get("id"), payload.get("kind")))
        return 0
    v = stages.replay_case(work, prop, payload)
    if v:
        p2 = run.write_replay(prop, payload)
        out("VIOLATION property=%s replay=%s" % (prop, p2))
        run.log(json.dumps(v)[:600])
        return 1
    out("replay: property %s holds on %s" % (prop, path))
    return 0
