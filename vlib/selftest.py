"""check selftest: shows that the binding bites (DESIGN §5.3).

(a) trace corruption: known-good recordings of the real code are corrupted in
    exactly one field and the TLA+ trace specifications must object to exactly
    the corrupted case (and to nothing in the untouched copy);
(b) the *_asfound.cfg model variants (behaviour before a repair) must FAIL.
Not a property check: it is registered for no property and writes
evidence/selftest.json.
"""
import copy
import json
import os
import random

from . import grammars as G
from . import run
from . import stages


def _lr_recordings(work):
    cases = []
    for name in ("nullable_chain", "expr_left", "list_left_empty", "json_like"):
        g = dict(G.CURATED)[name]
        rng = random.Random("selftest-" + name)
        ins = []
        iid = 0
        for toks, kind in stages.gen_inputs(g, rng, 4, 3):
            iid += 1
            text_in, lex = G.render_input(g, toks, rng, lead=" ", trail="\n")
            ins.append({"iid": iid, "text": text_in, "lex": lex, "partial": False, "meta": {"kind": kind, "anylex": False}})
        cases.append({"id": "self:%s|pager" % name, "grammar": G.render(g), "cfg": {"algo": "lr", "tt": "pager"},
                      "meta": {"nodis": True, "plain": True}, "inputs": ins})
    pres = run.run_vdrive(work, "selftest", cases, shards=1)
    return pres[0]


def _verdicts(work, dumps, traces, module="TraceLR"):
    r = run.run_tlc(work, module, module + ".cfg", {"DUMPS": dumps, "TRACES": traces})
    div = [l for l in r["out"].split("\n") if l.startswith('<<"DIVERGENCE"')]
    return r["verdicts"], div


def _bad(v):
    return sorted(k for k in ("c01", "c02", "c12", "c13", "c14", "c15") if v["mon"][k])


def main(work, tier, seed):
    results = []
    pre = _lr_recordings(work)
    dumps = pre + ".dumps.ndjson"
    traces = run.read_ndjson(pre + ".traces.ndjson")
    base_v, base_div = _verdicts(work, dumps, pre + ".traces.ndjson")
    clean = all(not _bad(v) for v in base_v) and not base_div
    results.append(dict(test="untouched recordings are accepted", ok=clean,
                        detail="%d traces, %d divergences" % (len(base_v), len(base_div))))
    okidx = [i for i, t in enumerate(traces) if t["res"]["k"] == "ok" and len(t["ev"]) >= 4]
    erridx = [i for i, t in enumerate(traces) if t["res"]["k"] == "err"]

    def first_leaf(n):
        return n if n["k"] == "t" else next((first_leaf(c) for c in n["c"] if first_leaf(c)), None)

    corruptions = []

    def c_span(t):
        e = next(e for e in t["ev"] if e["k"] == "r" and e["n"] > 0)
        e["e"] += 1
        return "reduce event span end +1", {"div"}

    def c_prod(t):
        e = next(e for e in t["ev"] if e["k"] == "r")
        e["p"] = e["p"] + 1
        return "reduce event production +1", {"div"}

    def c_tree_kind(t):
        l = first_leaf(t["tree"])
        l["t"] = l["t"] % 3 + 1 if l["t"] % 3 + 1 != l["t"] else l["t"] + 1
        return "first leaf token kind changed", {"c02"}

    def c_tree_span(t):
        t["tree"]["e"] += 1
        t["tree"]["ec"] += 1
        return "root span end +1", {"c13"}

    def c_layout(t):
        l = first_leaf(t["tree"])
        l["lay"] = l["lay"] + [32]
        return "one extra blank in the first leaf's layout", {"c14"}

    def c_col(t):
        l = first_leaf(t["tree"])
        l["sc"] += 1
        return "first leaf start column +1", {"c13"}

    def c_value(t):
        l = first_leaf(t["tree"])
        l["v"] = [l["v"][0] + 1] + l["v"][1:]
        return "first leaf value byte changed", {"c13", "c14"}

    def c_err_off(t):
        t["res"]["o"] += 1
        t["res"]["c"] += 1
        return "error offset +1", {"c12"}

    def c_flip_ok(t):
        t["res"]["k"] = "err"
        t["res"]["o"] = 0
        t["res"]["l"] = 1
        t["res"]["c"] = 0
        t["res"]["nexp"] = 1
        return "accepted sentence recorded as rejected", {"c01"}

    for fn, pool in ((c_span, okidx), (c_prod, okidx), (c_tree_kind, okidx), (c_tree_span, okidx),
                     (c_layout, okidx), (c_col, okidx), (c_value, okidx), (c_err_off, erridx), (c_flip_ok, okidx)):
        if not pool:
            continue
        i = pool[len(corruptions) % len(pool)]
        t2 = copy.deepcopy(traces)
        try:
            what, expect = fn(t2[i])
        except StopIteration:
            continue
        corruptions.append((what, expect, i, t2))
    for n, (what, expect, i, t2) in enumerate(corruptions):
        tp = work.path("selftest", "corrupt%d.ndjson" % n)
        with open(tp, "w") as f:
            for t in t2:
                f.write(json.dumps(t) + "\n")
        v, div = _verdicts(work, dumps, tp)
        hit = set(_bad(v[i]))
        if any(('"id":"%s"' % t2[i]["id"].replace('"', '')) in d.replace("\\", "") and
               ('"iid":%d' % t2[i]["iid"]) in d.replace("\\", "") for d in div):
            hit.add("div")
        others = [j for j, x in enumerate(v) if j != i and _bad(x)]
        ok = bool(hit & expect) and not others
        results.append(dict(test="corruption: " + what, ok=ok,
                            detail="case %s#%s flagged %s, %d other cases flagged" % (
                                t2[i]["id"], t2[i]["iid"], sorted(hit), len(others))))
    # dumps: drop one lookahead from an item
    ds = run.read_ndjson(dumps)
    d2 = copy.deepcopy(ds)
    done = False
    for st in d2[0]["t"]["states"]:
        for it in st["items"]:
            if len(it["la"]) >= 2 and not done:
                it["la"] = it["la"][1:]
                done = True
    raw_cases = [{"id": d["id"], "grammar": d["grammar"],
                  "cfg": {"algo": "glr", "tt": "pager", "raw": True, "ps": False, "pse": False},
                  "meta": {"nodis": False, "plain": True}} for d in ds[:1]]
    rp = run.run_vdrive(work, "selftest-raw", raw_cases, shards=1)[0]
    raw = run.read_ndjson(rp + ".dumps.ndjson")
    r0 = run.run_tlc(work, "CheckTables", "CheckTables.cfg", {"DUMPS": rp + ".dumps.ndjson", "MODE": "full"})
    raw2 = copy.deepcopy(raw)
    done = False
    for st in raw2[0]["t"]["states"]:
        for it in st["items"]:
            if len(it["la"]) >= 2 and not done:
                it["la"] = it["la"][1:]
                done = True
    cp = work.path("selftest", "rawcorrupt.ndjson")
    with open(cp, "w") as f:
        for d in raw2:
            f.write(json.dumps(d) + "\n")
    r1 = run.run_tlc(work, "CheckTables", "CheckTables.cfg", {"DUMPS": cp, "MODE": "full"})
    results.append(dict(test="corruption: one lookahead removed from a dumped item",
                        ok=(not r0["verdicts"][0]["disc"]) and any(x[0] == "lookahead_differs" for x in r1["verdicts"][0]["disc"]),
                        detail="untouched disc=%s corrupted disc=%s" % (r0["verdicts"][0]["disc"][:2], r1["verdicts"][0]["disc"][:2])))
    # (b) as-found model variants must fail
    for module, cfg, env in (("MC_Lex", "MC_Lex_asfound.cfg", {}), ("MC_Regen", "MC_Regen_asfound.cfg", {})):
        try:
            run.run_tlc(work, module, cfg, env, workers=4, timeout=600)
            failed = False
        except run.ToolError as e:
            failed = "violated" in str(e)
        results.append(dict(test="model variant %s (behaviour before the repair) is rejected by TLC" % cfg,
                            ok=failed, detail=""))
    os.makedirs(os.path.join(run.VERIF, "evidence"), exist_ok=True)
    with open(os.path.join(run.VERIF, "evidence", "selftest.json"), "w") as f:
        json.dump({"results": results, "passed": sum(1 for r in results if r["ok"]), "total": len(results)}, f, indent=1)
    for r in results:
        print("%s  %s  (%s)" % ("ok  " if r["ok"] else "FAIL", r["test"], r["detail"]))
    return 0 if all(r["ok"] for r in results) else 1
