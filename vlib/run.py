"""Infrastructure shared by all checks: building the harness against /repo,
running vdrive shards, running TLC, collecting VERDICT lines, evidence and
replay files, known findings."""
import hashlib
import json
import os
import re
import shutil
import subprocess
import sys
import tempfile
import time
from concurrent.futures import ThreadPoolExecutor

VERIF = os.path.dirname(os.path.dirname(os.path.abspath(__file__)))
REPO = os.environ.get("VERIF_REPO", "/repo")
SPEC = os.path.join(VERIF, "spec")
HARNESS = os.path.join(VERIF, "harness")
NCPU = 16


class ToolError(Exception):
    pass


def log(*a):
    print("[check]", *a, file=sys.stderr, flush=True)


def sh(cmd, **kw):
    return subprocess.run(cmd, shell=isinstance(cmd, str), capture_output=True, text=True, **kw)


# ---------------------------------------------------------------------------
_built = False


def build_harness():
    """(Re)builds vharness against the current working tree of /repo with the
    hook guard on.  Cargo decides what is stale, so an edited source file is
    always recompiled."""
    global _built
    if _built:
        return
    t0 = time.time()
    lock = os.path.join(HARNESS, "Cargo.lock")
    if not os.path.exists(lock):
        shutil.copy(os.path.join(REPO, "Cargo.lock"), lock)
    env = dict(os.environ, CARGO_NET_OFFLINE="true")
    # path dependencies in Cargo.toml point at /repo; VERIF_REPO (background runs on a snapshot
    # of the repository, never the registered commands) rewrites them in that snapshot's copy
    cfg = []
    if REPO != "/repo":
        ct = os.path.join(HARNESS, "Cargo.toml")
        txt = open(ct).read()
        if '"/repo/' in txt:
            open(ct, "w").write(txt.replace('"/repo/', '"%s/' % REPO))
    r = subprocess.run(["cargo", "build", "--offline", "--bins"] + cfg, cwd=HARNESS, env=env,
                       capture_output=True, text=True)
    if r.returncode != 0:
        sys.stderr.write(r.stderr[-4000:])
        raise ToolError("harness build failed (does /repo still compile with --cfg rustemo_verif?)")
    log("harness built in %.1fs" % (time.time() - t0))
    _built = True


_rcomp = None


def rcomp_bin():
    """rcomp built from /repo's working tree with the guard OFF (the binary users run)."""
    global _rcomp
    if _rcomp:
        return _rcomp
    t0 = time.time()
    td = os.path.join(HARNESS, "target", "rcomp")
    r = subprocess.run(["cargo", "build", "--offline", "-p", "rustemo-compiler", "--bin", "rcomp",
                        "--target-dir", td], cwd=REPO, capture_output=True, text=True,
                       env=dict(os.environ, CARGO_NET_OFFLINE="true"))
    if r.returncode != 0:
        sys.stderr.write(r.stderr[-3000:])
        raise ToolError("rcomp build failed")
    log("rcomp built in %.1fs" % (time.time() - t0))
    _rcomp = os.path.join(td, "debug", "rcomp")
    return _rcomp


def vhist_bin():
    return os.path.join(HARNESS, "target", "debug", "vhist")


def clean_env():
    """Environment for compiler runs: no OUT_DIR / CARGO_MANIFEST_DIR leaking in."""
    e = {k: v for k, v in os.environ.items() if k not in ("OUT_DIR", "CARGO_MANIFEST_DIR", "RUSTEMO_TRACE")}
    e["NO_COLOR"] = "1"
    return e


def vdrive_bin():
    return os.path.join(HARNESS, "target", "debug", "vdrive")


# ---------------------------------------------------------------------------
def tree_key():
    """Hash of /repo's working tree state (HEAD + diff + untracked sources)
    and of the machinery itself; used to key cached stage outputs."""
    h = hashlib.sha256()
    h.update(sh("git -C %s rev-parse HEAD" % REPO).stdout.encode())
    h.update(sh("git -C %s diff HEAD" % REPO).stdout.encode())
    unt = sh("git -C %s ls-files --others --exclude-standard" % REPO).stdout.split("\n")
    for f in sorted(unt):
        p = os.path.join(REPO, f)
        if f and os.path.isfile(p):
            h.update(f.encode())
            h.update(open(p, "rb").read())
    for root in ("spec", "vlib", "harness/src"):
        for dp, dn, fn in sorted(os.walk(os.path.join(VERIF, root))):
            for f in sorted(fn):
                if f.endswith((".tla", ".cfg", ".py", ".rs")):
                    h.update(open(os.path.join(dp, f), "rb").read())
    h.update(open(os.path.join(VERIF, "check"), "rb").read())
    return h.hexdigest()[:20]


class Work:
    """Scratch directory outside /repo and /verif, removed at exit."""

    def __init__(self):
        self.dir = tempfile.mkdtemp(prefix="verif-")

    def path(self, *a):
        p = os.path.join(self.dir, *a)
        os.makedirs(os.path.dirname(p), exist_ok=True)
        return p

    def cleanup(self):
        if os.environ.get("VERIF_KEEP"):
            log("keeping scratch directory " + self.dir)
            return
        shutil.rmtree(self.dir, ignore_errors=True)


# ---------------------------------------------------------------------------
def run_vdrive(work, name, cases, shards=NCPU, timeout_ms=30000):
    """Runs the cases through vdrive in parallel shards.  Returns a list of
    shard prefixes; each has .dumps/.errs/.traces ndjson next to it."""
    build_harness()
    # more shards than cores when there is much to do: the pool below then balances the load
    # (cases differ a lot in cost; with one shard per core the slowest shard decided the time)
    if shards == NCPU and len(cases) > 40 * NCPU:
        shards = NCPU * 4
    shards = max(1, min(shards, len(cases)))
    prefixes = []
    for s in range(shards):
        pre = work.path(name, "s%02d" % s)
        with open(pre + ".cases.ndjson", "w") as f:
            for c in cases[s::shards]:
                f.write(json.dumps(c) + "\n")
        for suf in ("dumps", "errs", "traces"):
            open("%s.%s.ndjson" % (pre, suf), "w").close()
        prefixes.append(pre)

    def one(pre):
        skip = 0
        extra = ""
        n = sum(1 for _ in open(pre + ".cases.ndjson"))
        restarts = 0
        while skip < n:
            cmd = "ulimit -v 12000000; exec %s run %s.cases.ndjson %s --skip %d --timeout-ms %d %s" % (
                vdrive_bin(), pre, pre, skip, timeout_ms, extra)
            r = subprocess.run(["bash", "-c", cmd], capture_output=True, text=True)
            extra = ""
            if r.returncode == 0:
                return
            # the process may have died (abort in the code under test, on another thread) while a
            # record was being written: cut a trailing partial line before the next run appends
            for suf in ("dumps", "errs", "traces"):
                fp = "%s.%s.ndjson" % (pre, suf)
                try:
                    with open(fp, "rb+") as f:
                        data = f.read()
                        if data and not data.endswith(b"\n"):
                            cut = data.rfind(b"\n") + 1
                            f.truncate(cut)
                            log("cut a partial record (%d bytes) from %s" % (len(data) - cut, os.path.basename(fp)))
                except OSError:
                    pass
            restarts += 1
            if restarts > 200:
                raise ToolError("vdrive keeps crashing: " + r.stderr[-300:])
            m = re.search(r"HANG case_index=(\d+)", r.stderr)
            if r.returncode == 3 and m:
                skip = int(m.group(1)) + 1
                continue
            # The process itself died (stack overflow / abort / OOM in the code under
            # test).  vdrive noted what it was doing; resume there and record a crash.
            try:
                ci, ii, phase = open(pre + ".progress").read().split()
            except Exception:
                raise ToolError("vdrive crashed (exit %d): %s" % (r.returncode, r.stderr[-500:]))
            skip = int(ci)
            if phase == "dump":
                extra = "--crash dump"
            else:
                extra = "--resume-input %s --crash %s" % (ii, phase)

    with ThreadPoolExecutor(max_workers=NCPU) as ex:
        list(ex.map(one, prefixes))
    return prefixes


def read_ndjson(path):
    out = []
    with open(path) as f:
        for l in f:
            l = l.strip()
            if l:
                out.append(json.loads(l))
    return out


# ---------------------------------------------------------------------------
TLC_STATS = re.compile(r"(\d+) states generated, (\d+) distinct states found")


def run_tlc(work, module, cfg, env=None, workers=1, timeout=1800, simulate=None, extra=None,
            tag="tlc"):
    """Runs TLC on spec/<module>.tla with spec/<cfg>.  Returns dict with
    verdicts (parsed VERDICT json), states, distinct, raw output, ok flag."""
    md = tempfile.mkdtemp(prefix="md-", dir=work.dir)
    e = dict(os.environ)
    e.update(env or {})
    e["JAVA_TOOL_OPTIONS"] = e.get("JAVA_TOOL_OPTIONS", "") + " -Xss512m -Xmx%s" % ("3g" if workers == 1 else "24g")
    cmd = ["timeout", str(timeout), "tlc", "-workers", str(workers), "-metadir", md, "-cleanup",
           "-noGenerateSpecTE", "-config", os.path.join(SPEC, cfg)]
    if simulate:
        cmd += ["-simulate", simulate]
    if extra:
        cmd += extra
    cmd.append(os.path.join(SPEC, module + ".tla"))
    t0 = time.time()
    r = subprocess.run(cmd, capture_output=True, text=True, env=e, cwd=SPEC)
    out = r.stdout
    shutil.rmtree(md, ignore_errors=True)
    verdicts = []
    for line in out.split("\n"):
        if line.startswith('<<"VERDICT", '):
            body = line[len('<<"VERDICT", '):].rstrip()
            if body.endswith(">>"):
                body = body[:-2]
            verdicts.append(json.loads(json.loads(body)))
    m = TLC_STATS.search(out)
    res = {"verdicts": verdicts, "states": int(m.group(1)) if m else 0,
           "distinct": int(m.group(2)) if m else 0, "out": out, "rc": r.returncode,
           "wall": time.time() - t0}
    finished = ("Model checking completed" in out) or ("Finished in" in out and simulate)
    if r.returncode == 124:
        raise ToolError("TLC timeout (%s/%s) after %ds" % (module, cfg, timeout))
    if not finished or "Error:" in out:
        # TLC evaluation errors are tool errors, never verdicts
        tail = "\n".join(l for l in out.split("\n") if not l.startswith('<<"VERDICT"')
                         and not l.startswith(("Linting", "Semantic", "Parsing")))[-2500:]
        raise ToolError("TLC did not complete (%s/%s, rc=%s):\n%s\n--- stderr:\n%s" % (
            module, cfg, r.returncode, tail, (r.stderr or "")[-1500:]))
    return res


def run_tlc_shards(work, module, cfg, envs, timeout=1800):
    """One single-worker TLC per environment (shard), all in parallel."""
    with ThreadPoolExecutor(max_workers=NCPU) as ex:
        futs = [ex.submit(run_tlc, work, module, cfg, env, 1, timeout) for env in envs]
        return [f.result() for f in futs]


# ---------------------------------------------------------------------------
def load_known():
    p = os.path.join(VERIF, "known_findings.json")
    if os.path.exists(p):
        return json.load(open(p))
    return {"findings": [], "fixed": []}


def write_replay(pid, payload):
    os.makedirs(os.path.join(VERIF, "replays"), exist_ok=True)
    h = hashlib.sha256(json.dumps(payload, sort_keys=True).encode()).hexdigest()[:12]
    path = os.path.join(VERIF, "replays", "%s-%s.json" % (pid, h))
    with open(path, "w") as f:
        json.dump(payload, f, indent=1, sort_keys=True)
    return path


def write_evidence(pid, tier, seed, level, coverage, wall, violations, assumptions):
    os.makedirs(os.path.join(VERIF, "evidence"), exist_ok=True)
    ev = {"property_id": pid, "tier": tier, "seed": seed, "level": level, "coverage": coverage,
          "assumptions": assumptions, "wall_s": round(wall, 2), "violations": violations}
    with open(os.path.join(VERIF, "evidence", pid + ".json"), "w") as f:
        json.dump(ev, f, indent=1)
