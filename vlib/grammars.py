"""Abstract grammars for the verification corpus: rendering to .rustemo text,
curated shapes, the enumerable family Fam(n,t,p,r), seeded random grammars,
sentence generation and rendering of token strings to input text.

A grammar is a dict:
  rules: [ [name, [alt, ...]] ]   alt = {"rhs": [sym...], "meta": "left, 1" | ""}
  terms: [ [name, kind, text, lexeme] ]  kind "str" | "re"
The first rule is the start symbol.  Terminal names are T<letter>; every
terminal's sample lexeme is a single distinct letter so that the terminal set
is lexically unambiguous (token-level oracles are then exact).
"""
import itertools
import random

LETTERS = "abcdefghijklmnopqrstuvwxyz"


# a few terminals have non-ASCII lexemes so that byte offsets, columns (bytes) and
# character boundaries differ from character counts
NONASCII = {"e": "\u00e9", "k": "\u20ac", "z": "\u00df"}


def term(i, kind="str", prio=None, assoc=None):
    name = "T" + LETTERS[i]
    ch = NONASCII.get(LETTERS[i], LETTERS[i])
    if kind == "str":
        text = ch
    elif kind == "ml":
        # a multi-line token (string / comment like): everything from the letter to the next ';',
        # line breaks, blanks and multi-byte characters included
        return [name, kind, ch + "[^;]*;", ch + " \n" + ch + "\u00e9\n;", prio, assoc]
    else:
        text = ch + "+"
    return [name, kind, text, ch, prio, assoc]


def abstract_of(g):
    """The grammar as the user means it: [[rule name, [[symbol names of an alternative], ...]], ...]
    (EMPTY contributes nothing).  Carried next to the text so that the grammar the compiler
    builds can be compared with it."""
    return [[name, [list(a["rhs"]) for a in alts]] for name, alts in g["rules"]]


def render(g, assigns=False, plain=False):
    import zlib
    # every fourth grammar (by content) is written with EMPTY references sprinkled between the
    # symbols of some alternatives: they contribute nothing, the abstract grammar is the same.
    # assigns=True (table stage): another quarter is written with named (x=Sym) and bool
    # (x?=Sym) assignments on some symbols, a third quarter with both decorations: an assignment
    # names a symbol for the builder, the grammar that is analysed is the same.
    # plain=True: no decoration (the twin the decorated text is compared with)
    h = zlib.crc32(repr([(n, [a["rhs"] for a in alts]) for n, alts in g["rules"]]).encode())
    srng = random.Random(h) if (h % 4 == 0 or (assigns and h % 4 == 2)) and not plain else None
    arng = random.Random(h + 1) if assigns and h % 4 in (1, 2) and not plain else None
    out = []
    for name, alts in g["rules"]:
        parts = []
        for a in alts:
            syms = list(a["rhs"])
            if arng and syms and arng.random() < 0.6:
                for k in range(len(syms)):
                    if arng.random() < 0.5:
                        syms[k] = "%s%d%s%s" % (arng.choice(["n", "f", "is_"]), k, arng.choice(["=", "?="]), syms[k])
            if srng and syms and srng.random() < 0.5:
                for _ in range(srng.choice([1, 1, 2])):
                    syms.insert(srng.randint(0, len(syms)), "EMPTY")
            rhs = " ".join(syms) if syms else "EMPTY"
            if a.get("meta"):
                rhs += " {" + a["meta"] + "}"
            parts.append(rhs)
        rmeta = g.get("rule_meta", {}).get(name)
        head = name + (" {" + rmeta + "}" if rmeta else "")
        out.append(head + ": " + " | ".join(parts) + ";")
    for line in g.get("extra_rules", []):
        out.append(line)
    if g["terms"] or g.get("extra_terms"):
        out.append("terminals")
        for t in g["terms"]:
            name, kind, text = t[0], t[1], t[2]
            prio = t[4] if len(t) > 4 else None
            assoc = t[5] if len(t) > 5 else None
            rec = "'" + text + "'" if kind == "str" else "/" + text + "/"
            meta = [str(x) for x in (prio, assoc) if x]
            out.append(name + ": " + rec + (" {" + ", ".join(meta) + "}" if meta else "") + ";")
    for line in g.get("extra_terms", []):
        out.append(line)
    return "\n".join(out) + "\n"


LAYOUTS = {
    "ws": (["Layout: LayoutItem*;", "LayoutItem: WS;"], ["WS: /\\s+/;"],
           [" ", "\n", "  ", "\t", " \n ", "\r\n"]),
    "line": (["Layout: LayoutItem*;", "LayoutItem: WS | CommentLine;"],
             ["WS: /\\s+/;", "CommentLine: /\\/\\/.*/;"],
             [" ", "\n", "// c\n", " // x y\n  ", "//\n", "\t"]),
    "block": (["Layout: LayoutItem*;", "LayoutItem: WS | Comment;",
               "Comment: CS Corncs CE | CommentLine;", "Corncs: Cornc*;",
               "Cornc: Comment | NotComment | WS;"],
              ["WS: /\\s+/;", "CommentLine: /\\/\\/.*/;", "CS: '/*';", "CE: '*/';",
               "NotComment: /((\\*[^\\/])|[^\\s*\\/]|\\/[^\\*])+/;"],
              [" ", "\n", "/* x */", " /* a /* n */ b */ ", "// c\n", "/**/", "/* l1\n l2 é */"]),
    # other ways of writing the Layout rule: a direct EMPTY alternative, a layout that is
    # not nullable, left recursion, a single optional token
    "plusempty": (["Layout: LayoutItem+ | EMPTY;", "LayoutItem: WS | CommentLine;"],
                  ["WS: /\\s+/;", "CommentLine: /\\/\\/.*/;"],
                  [" ", "\n", "// c\n", " // x y\n  ", "//\n", "\t"]),
    "plus": (["Layout: LayoutItem+;", "LayoutItem: WS;"], ["WS: /\\s+/;"],
             [" ", "\n", "  ", "\t", " \n ", "\r\n"]),
    "leftrec": (["Layout: Layout LayoutItem | EMPTY;", "LayoutItem: WS | CommentLine;"],
                ["WS: /\\s+/;", "CommentLine: /\\/\\/.*/;"],
                [" ", "\n", "// c\n", " // x y\n  ", "//\n", "\t"]),
    "optws": (["Layout: WS | EMPTY;"], ["WS: /\\s+/;"],
              [" ", "\n", "  ", "\t", " \n ", "\r\n"]),
}
LAYOUT_KINDS = ["ws", "line", "block", "plusempty", "plus", "leftrec", "optws"]


def with_layout(g, kind):
    rules, terms, vocab = LAYOUTS[kind]
    g2 = dict(g)
    g2["extra_rules"] = list(rules)
    g2["extra_terms"] = list(terms)
    g2["layout"] = kind
    return g2


def layout_seps(g, rng, n):
    """n separators drawn from the grammar's layout vocabulary (or white space)."""
    if g.get("layout"):
        vocab = LAYOUTS[g["layout"]][2]
        out = []
        for _ in range(n):
            k = rng.choice([0, 1, 1, 1, 2])
            out.append("".join(rng.choice(vocab) for _ in range(k)))
        return out
    return [rng.choice(SEPS) for _ in range(n)]


def G(rules, nterms=None, kinds=None, tmeta=None, rule_meta=None):
    """rules: "S: A Tb | ; A: Ta {left}" compact notation.
    Alternatives separated by |, empty alternative = EMPTY, meta in {...}."""
    rl = []
    used = set()
    for r in rules.split(";"):
        r = r.strip()
        if not r:
            continue
        name, body = r.split(":", 1)
        alts = []
        for a in body.split("|"):
            a = a.strip()
            meta = ""
            if "{" in a:
                a, meta = a.split("{", 1)
                meta = meta.rstrip("} ").strip()
                a = a.strip()
            syms = [s for s in a.split() if s != "EMPTY"]
            for s in syms:
                if s.startswith("T") and len(s) == 2:
                    used.add(s[1])
            alts.append({"rhs": syms, "meta": meta})
        rl.append([name.strip(), alts])
    letters = sorted(used)
    terms = []
    for ch in letters:
        i = LETTERS.index(ch)
        k = (kinds or {}).get(ch, "str")
        t = term(i, k)
        if tmeta and ch in tmeta:
            t[4], t[5] = tmeta[ch]
        terms.append(t)
    g = {"rules": rl, "terms": terms}
    if rule_meta:
        g["rule_meta"] = rule_meta
    return g


# ---------------------------------------------------------------------------
# Curated shapes (name, grammar, tags). Tags: det = expected deterministic,
# amb = ambiguous, nullable, hidden-left, etc.  Only used to pick slices.
CURATED = [
    ("expr_left", G("E: E Tp T | T; T: T Tm F | F; F: Tl E Tr | Tn")),
    ("expr_right", G("E: T Tp E | T; T: Tn")),
    ("expr_amb", G("E: E Tp E | E Tm E | Tn")),
    ("expr_amb_par", G("E: E Tp E | Tl E Tr | Tn")),
    ("dangling_else", G("S: Ti S | Ti S Te S | Tx")),
    ("nullable_chain", G("S: A B C Td; A: Ta | ; B: Tb | ; C: Tc | ")),
    ("nullable_tail", G("S: Ta A B; A: Tb | ; B: Tc | ")),
    ("nullable_mid", G("S: Ta A Tb; A: Tc | ")),
    ("nullable_start", G("S: A Ta; A: Tb | ")),
    ("all_nullable", G("S: A B; A: Ta | ; B: Tb | ")),
    ("list_left", G("L: L Ta | Ta")),
    ("list_right", G("L: Ta L | Ta")),
    ("list_left_empty", G("L: L Ta | ")),
    ("list_right_empty", G("L: Ta L | ")),
    ("list_sep", G("L: L Tc Ta | Ta")),
    ("hidden_left", G("S: A S Tb | Ta; A: ")),
    ("hidden_left2", G("S: B S Tb | Ta; B: Tc | ")),
    ("hidden_right", G("S: Ta S A | Tb; A: ")),
    ("gamma1", G("S: Ta S A | ; A: ")),
    ("gamma2", G("S: Ta B B C | Ta B; B: Tb | ; C: ")),
    ("knuth_lr1", G("S: Ta A Td | Tb B Td | Ta B Te | Tb A Te; A: Tc; B: Tc")),
    ("pager_g1", G("G: Ta X Td | Ta Y Te | Tb X Te | Tb Y Td; X: Tc; Y: Tc")),
    ("lalr_not_slr", G("S: L Te R | R; L: Ts R | Ti; R: L")),
    ("palindrome", G("S: Ta S Ta | Tb S Tb | Ta | Tb | ")),
    ("palindrome_even", G("S: Ta S Ta | Tb S Tb | ")),
    ("bounded_amb", G("S: A | B; A: Ta; B: Ta")),
    ("unbounded_amb", G("S: S S | Ta")),
    ("unbounded_amb_eps", G("S: S S | Ta | ")),
    ("farshi_g7", G("S: Ta S Tb | A; A: Ta A | ")),
    ("nested_opt", G("S: A; A: B Ta | Tb; B: C | ; C: Tc")),
    ("two_levels", G("S: A B; A: Ta A | Ta; B: Tb B | ")),
    ("right_null_prefix", G("S: Ta A B Tb | Ta A; A: Tc | ; B: Td | ")),
    ("lr2", G("S: A Tc Td | B Tc Te; A: Ta; B: Ta")),
    ("json_like", G("V: O | A | Ts | Tn; O: Tl M Tr | Tl Tr; M: M Tc P | P; P: Ts Tk V; "
                    "A: Tb E Te | Tb Te; E: E Tc V | V")),
    ("stmt_list", G("P: L; L: L S | ; S: Ti Te | Tb L Tc")),
    ("opt_sep", G("S: Ta O Tb; O: Tc | ; ")),
    ("deep_unit", G("S: A; A: B; B: C; C: Ta | Tb C")),
    ("empty_only", G("S: A; A: ")),
    ("eps_amb", G("S: A B Ta; A: | Tb; B: A | Tc")),
    ("cyclic", G("S: A | Ta; A: S")),
    ("rr_conflict", G("S: A Ta | B Ta; A: Tb; B: Tb")),
    ("sr_conflict", G("S: A Ta; A: Tb | Tb Ta | ")),
    ("mixed_rec", G("S: Ta S Tb S | ")),
    ("left_right", G("S: S Ta S | Tb")),
    ("multi_start_null", G("S: A B C; A: Ta | ; B: A Tb | ; C: Tc")),
    ("rr_two_null", G("A: Tx A B C | Ty; B: ; C: ")),
    ("rr_three_null", G("A: Tx A B C D | Ty; B: ; C: Tz | ; D: ")),
    ("indirect_rr_null", G("A: Tx M | Ty; M: A B C; B: ; C: D; D: ")),
    # one production reducible at two dot positions in ONE state on the same lookahead
    ("self_overlap_rn", G("P: X X | Tx; X: P Tb | ")),
    ("lr_two_null_mid", G("S: Ta B C Td S | Te; B: Tb | ; C: Tc | ")),
    ("regex_terms", G("S: S Ta | Tb", kinds={"a": "re", "b": "re"})),
    # tokens that contain line breaks
    ("ml_token_list", G("S: S Tq | Tq", kinds={"q": "ml"})),
    ("ml_token_expr", G("E: E Tp Tq | Tq; ", kinds={"q": "ml"})),
    ("ml_token_nullable", G("S: A Tq Tb; A: Ta | ", kinds={"q": "ml"})),
    ("regex_expr", G("E: E Tp E {left, 1} | E Tm E {left, 2} | Tn", kinds={"n": "re"})),
]

ANNOTATED = [
    ("prec_left", G("E: E Tp E {left, 1} | E Tm E {left, 2} | Tn")),
    ("prec_right", G("E: E Tp E {right, 1} | E Tm E {right, 2} | Tn")),
    ("prec_mixed", G("E: E Tp E {left, 1} | E Tm E {right, 2} | E Tq E {left, 3} | Tn")),
    ("prec_unary", G("E: E Tp E {left, 1} | Tm E {3} | E Tq E {left, 2} | Tn")),
    ("prec_paren", G("E: E Tp E {left, 1} | E Tm E {left, 2} | Tl E Tr | Tn")),
    ("dangling_shift", G("S: Ti S {nops} | Ti S Te S | Tx")),
    ("dangling_prio", G("S: Ti S {1} | Ti S Te S {2} | Tx")),
    ("dangling_right", G("S: Ti S {right} | Ti S Te S | Tx")),
    ("term_assoc", G("E: E Tp E | Tn", tmeta={"p": (None, "left")})),
    ("term_assoc_r", G("E: E Tp E | Tn", tmeta={"p": (None, "right")})),
    ("rule_meta", G("E: E Tp E | E Tm E {2} | Tn", rule_meta={"E": "left, 1"})),
    ("empty_vs_shift", G("S: A Ta; A: Ta | ")),
    ("empty_vs_shift_nopse", G("S: A Ta; A: Ta | {nopse}")),
    ("rr_prio", G("S: A Ta | B Ta; A: Tb {2}; B: Tb {1}")),
    ("rr_empty", G("S: A Tc | B Tc; A: Tb | ; B: Tb")),
    ("three_way", G("S: A Tt | B Tt | C; A: Ta {5}; B: Ta; C: Ta Tt")),
]


# ---------------------------------------------------------------------------
def family(n, t, p, r):
    """All grammars with exactly k<=n nonterminals N0..,<=t terminals, total
    productions <= p, |rhs| <= r, every nonterminal with >=1 production; start
    N0.  Generated lazily in a canonical order (indexable by enumeration)."""
    nts = ["N%d" % i for i in range(n)]
    ts = ["T" + LETTERS[i] for i in range(t)]
    syms = nts + ts
    rhss = []
    for l in range(0, r + 1):
        rhss.extend(itertools.product(syms, repeat=l))
    # choose a multiset of (lhs, rhs) of size between n and p, each lhs >=1
    all_prods = [(a, rhs) for a in nts for rhs in rhss]
    for k in range(n, p + 1):
        for combo in itertools.combinations(all_prods, k):
            if len({c[0] for c in combo}) < n:
                continue
            rules = []
            for a in nts:
                rules.append([a, [{"rhs": list(rhs), "meta": ""} for (l, rhs) in combo if l == a]])
            used = sorted({s[1] for (_, rhs) in combo for s in rhs if s.startswith("T")})
            yield {"rules": rules, "terms": [term(LETTERS.index(c)) for c in used]}


def family_count(n, t, p, r):
    return sum(1 for _ in family(n, t, p, r))


def useful(g):
    """Filter: all nonterminals reachable from the start and the rhs symbols defined."""
    rules = dict((n, a) for n, a in g["rules"])
    seen = set()
    todo = [g["rules"][0][0]]
    while todo:
        x = todo.pop()
        if x in seen:
            continue
        seen.add(x)
        for a in rules[x]:
            for s in a["rhs"]:
                if s in rules and s not in seen:
                    todo.append(s)
    return len(seen) == len(rules)


def random_grammar(rng, max_nt=5, max_t=5, max_p=12, max_r=4, meta=False, regex=False):
    n = rng.randint(1, max_nt)
    t = rng.randint(1, max_t)
    nts = ["N%d" % i for i in range(n)]
    ts = ["T" + LETTERS[i] for i in range(t)]
    rules = []
    budget = max_p
    for i, a in enumerate(nts):
        k = rng.randint(1, max(1, min(4, budget - (n - i - 1))))
        budget -= k
        alts = []
        seen = set()
        for _ in range(k):
            shape = rng.random()
            if shape < 0.15:
                rhs = []
            else:
                l = rng.randint(1, max_r)
                rhs = []
                for _ in range(l):
                    if rng.random() < 0.45:
                        # prefer self / later nonterminals to get recursion
                        rhs.append(rng.choice(nts))
                    else:
                        rhs.append(rng.choice(ts))
            key = tuple(rhs)
            if key in seen:
                continue
            seen.add(key)
            m = ""
            if meta and rhs:
                parts = []
                if rng.random() < 0.4:
                    parts.append(rng.choice(["left", "right"]))
                if rng.random() < 0.4:
                    parts.append(str(rng.choice([5, 10, 20])))
                if rng.random() < 0.15:
                    parts.append("nops")
                m = ", ".join(parts)
            elif meta and not rhs and rng.random() < 0.2:
                m = "nopse"
            alts.append({"rhs": rhs, "meta": m})
        rules.append([a, alts])
    used = sorted({s[1] for _, alts in rules for a in alts for s in a["rhs"] if s.startswith("T")})
    terms = []
    for c in used:
        tm = term(LETTERS.index(c), "re" if (regex and rng.random() < 0.5) else "str")
        if meta and rng.random() < 0.2:
            tm[5] = rng.choice(["left", "right"])
        terms.append(tm)
    return {"rules": rules, "terms": terms}


# ---------------------------------------------------------------------------
def is_cyclic(g):
    """A =>+ A for some nonterminal (same definition as Grammar.Cyclic in the TLA+ oracle)."""
    rules = dict((n, a) for n, a in g["rules"])
    nullable = set()
    ch = True
    while ch:
        ch = False
        for n, alts in rules.items():
            if n not in nullable and any(all(s in nullable for s in a["rhs"]) for a in alts):
                nullable.add(n)
                ch = True
    pairs = set()
    for n, alts in rules.items():
        for a in alts:
            for i, s in enumerate(a["rhs"]):
                if s in rules and all(x in nullable for j, x in enumerate(a["rhs"]) if j != i):
                    pairs.add((n, s))
    ch = True
    while ch:
        ch = False
        for (a, b) in list(pairs):
            for (c, d) in list(pairs):
                if b == c and (a, d) not in pairs:
                    pairs.add((a, d))
                    ch = True
    return any(a == b for a, b in pairs)


def term_names(g):
    return [t[0] for t in g["terms"]]


def lexeme_of(g):
    return {t[0]: t[3] for t in g["terms"]}


def min_lengths(g):
    rules = dict((n, a) for n, a in g["rules"])
    INF = 10 ** 6
    m = {n: INF for n in rules}
    changed = True
    while changed:
        changed = False
        for n, alts in rules.items():
            for a in alts:
                tot = 0
                for s in a["rhs"]:
                    tot += m[s] if s in rules else 1
                if tot < m[n]:
                    m[n] = tot
                    changed = True
    return m


def random_sentence(g, rng, max_len=10):
    """Random derivation from the start symbol; returns a list of terminal
    names or None if the grammar is unproductive / too long."""
    rules = dict((n, a) for n, a in g["rules"])
    m = min_lengths(g)
    start = g["rules"][0][0]
    if m[start] > max_len:
        return None
    out = []
    INF = 10 ** 6
    height = {n: INF for n in rules}

    def alt_height(a):
        return 1 + max([height[s] for s in a["rhs"] if s in rules] + [0])

    changed = True
    while changed:
        changed = False
        for n, alts_ in rules.items():
            hh = min(alt_height(a) for a in alts_)
            if hh < height[n]:
                height[n] = hh
                changed = True

    def expand(sym, budget, depth):
        if sym not in rules:
            out.append(sym)
            return True
        alts = [a for a in rules[sym] if sum(m[s] if s in rules else 1 for s in a["rhs"]) <= budget]
        if not alts:
            return False
        if depth > 10:
            # finish by an alternative that realises the symbol's minimal derivation
            # height: the children then have strictly smaller heights (always terminates)
            best = [a for a in rules[sym] if alt_height(a) == height[sym] and height[sym] < INF]
            if not best:
                return False
            fit = [a for a in best if a in alts]
            a = (fit or best)[0]
        else:
            a = rng.choice(alts)
        need = sum(m[s] if s in rules else 1 for s in a["rhs"])
        slack = budget - need
        for s in a["rhs"]:
            mine = (m[s] if s in rules else 1)
            give = rng.randint(0, slack) if slack > 0 else 0
            before = len(out)
            if not expand(s, mine + give, depth + 1):
                return False
            used = len(out) - before
            slack -= max(0, used - mine)
            slack = max(0, slack)
        return True

    if expand(start, max_len, 0) and len(out) <= max_len + 4:
        return out
    return None


def mutate(tokens, names, rng):
    t = list(tokens)
    op = rng.choice(["drop", "insert", "replace", "truncate", "swap", "dup"])
    if op == "drop" and t:
        del t[rng.randrange(len(t))]
    elif op == "insert":
        t.insert(rng.randint(0, len(t)), rng.choice(names))
    elif op == "replace" and t:
        t[rng.randrange(len(t))] = rng.choice(names)
    elif op == "truncate" and t:
        t = t[: rng.randrange(len(t))]
    elif op == "swap" and len(t) > 1:
        i = rng.randrange(len(t) - 1)
        t[i], t[i + 1] = t[i + 1], t[i]
    elif op == "dup" and t:
        i = rng.randrange(len(t))
        t.insert(i, t[i])
    else:
        t.append(rng.choice(names))
    return t


SEPS = [" ", "", "  ", "\n", "\t ", " \n  ", "\r\n", " ", "", "\u00a0", "\u2003 ", " \u3000", "\u2028", " \n", "\n\u00a0", "\n \u3000 ", "\r\n\u2003"]


def render_input(g, tokens, rng=None, seps=None, foreign_at=None, kinds=None,
                 lead=None, trail=None):
    """Token names -> text + lexeme list [[off, len, kind]].  kinds maps terminal
    name -> terminal index in the compiled grammar (STOP=0, then declaration
    order).  A regex terminal /x+/ may be rendered with a repeated letter.
    Adjacent lexemes of the same letter are always separated."""
    lex = lexeme_of(g)
    tk = {t[0]: t for t in g["terms"]}
    if kinds is None:
        kinds = {t[0]: i + 1 for i, t in enumerate(g["terms"])}
    text = lead if lead is not None else ""
    lexemes = []
    prev = None
    for i, name in enumerate(tokens):
        if name == "?":  # foreign character no terminal matches
            word = rng.choice(["#", "\u00f1", "\u20a4", "?", "\x00", "\x7f", "\u200b", "\U0001f600"]) if rng else "#"
            kind = -1
        else:
            word = lex[name]
            if tk[name][1] == "re" and rng and rng.random() < 0.4:
                word = word * rng.randint(2, 3)
            kind = kinds[name]
        if i > 0:
            if seps is not None:
                sep = seps[(i - 1) % len(seps)]
            elif rng:
                sep = rng.choice(SEPS)
            else:
                sep = " "
            if sep == "" and prev is not None and (prev[-1] == word[0]):
                sep = " "
            text += sep
        off = len(text.encode())
        text += word
        lexemes.append([off, len(word.encode()), kind])
        prev = word
    text += trail if trail is not None else ""
    return text, lexemes


# ---------------------------------------------------------------------------
# Documents of the grammar LANGUAGE (rustemo-compiler/src/lang/rustemo.rustemo): random
# syntactically valid files that use every construct of that grammar, with names drawn
# from small pools that contain the names the compiler itself uses (STOP, EMPTY, AUG,
# Layout, the helper names X1/X0/XOpt of the regex-like operators), Rust keywords and
# names that are not Rust identifiers (Name allows dots).
DOC_RULE_NAMES = ["S", "A", "B", "C", "A1", "A0", "AOpt", "B1", "Ta1", "Layout", "STOP", "EMPTY", "AUG", "AUGL",
                  "fn", "Self", "a.b", "A_b", "_x", "If", "Type", "Box", "Token", "Input", "Ctx", "Context",
                  "TokenKind", "State", "Vec", "Option", "String", "ANoO", "SBase", "Empty", "C1"]
DOC_TERM_NAMES = ["Ta", "Tb", "Tc", "Td", "Ta1", "STOP", "Num", "type", "t.x", "Ta0", "If", "Loop", "Token", "S",
                  "Match", "TaOpt"]
DOC_STRS = ["'a'", "'b'", "'c'", "'+'", "','", "\"x y\"", "''", "'\\''", "'é'", "'ab'", "'terminals'"]
DOC_REGEXES = ["/a+/", "/\\d+/", "/[a-c]+/", "/a*/", "/(/", "/b|bb/", "/\\//", "/./", "/[^a]/"]
DOC_KINDS = ["Add", "Mul", "A", "S", "a.b", "fn", "T1", "x_y", "Ta"]
DOC_OPS = ["*", "+", "?", "*!", "+!", "?!"]
DOC_CONSTS = ["5", "0", "1.5", "true", "'z'", "\"x y\"", "99999999999", "-1.0e3"]


def docgen(rng):
    # `odd`: how often an unusual choice is made (a compiler-reserved or helper-like name, a
    # name that is not a Rust identifier, an undefined reference, a broken recogniser);
    # with odd = 0 the document is an ordinary grammar
    odd = rng.choice([0.0, 0.01, 0.03, 0.08, 0.2])

    def pick(pool, nnormal):
        return rng.choice(pool) if rng.random() < odd * 2 else rng.choice(pool[:nnormal])

    nrules = rng.choice([1, 2, 2, 3, 3, 4])
    rule_names = ["S"] if rng.random() < 0.8 else []
    while len(rule_names) < nrules:
        n = pick(DOC_RULE_NAMES, 4)
        if n not in rule_names or rng.random() < odd / 2:
            rule_names.append(n)
    nterms = rng.randint(1, 4)
    term_names = []
    while len(term_names) < nterms:
        n = pick(DOC_TERM_NAMES, 4)
        if n not in term_names:
            term_names.append(n)
    used_strs = []

    def symbol():
        if rng.random() < odd:
            return rng.choice(DOC_RULE_NAMES + DOC_TERM_NAMES)
        r = rng.random()
        if r < 0.5:
            return rng.choice(term_names)
        if r < 0.83:
            return rng.choice(rule_names)
        if r < 0.93:
            s_ = pick(DOC_STRS, 5)
            used_strs.append(s_)
            return s_
        return "EMPTY"

    def prod_meta():
        ms = []
        for _ in range(rng.choice([1, 1, 2, 3])):
            r = rng.random()
            if r < 0.35:
                ms.append(rng.choice(["left", "right", "reduce", "shift", "dynamic", "nops", "nopse"]))
            elif r < 0.55:
                ms.append(pick(["1", "2", "15", "0", "99999999999"], 4))
            elif r < 0.7:
                ms.append("%s: %s" % (pick(["x", "y1", "kind", "left", "a.b"], 2), pick(DOC_CONSTS, 5)))
            else:
                ms.append(pick(["Add", "Mul", "T1", "x_y", "A", "S", "a.b", "fn", "Ta"], 4))
        return " {" + ", ".join(ms) + "}"

    def rhs(depth):
        prods = []
        for _ in range(rng.choice([1, 1, 2, 2, 3])):
            asg = []
            for _ in range(rng.choice([1, 1, 2, 2, 3, 4])):
                if depth < 2 and rng.random() < odd / 2:
                    ref = "(" + rhs(depth + 1) + ")"
                else:
                    ref = symbol()
                if rng.random() < 0.25 and ref != "EMPTY":
                    ref += pick(DOC_OPS, 3)
                    if rng.random() < 0.25:
                        ref += "[" + ", ".join(pick(term_names + ["nb", "Zz", "A"], len(term_names))
                                               for _ in range(1 if rng.random() > odd else 2)) + "]"
                r = rng.random()
                if r < 0.12:
                    ref = "%s=%s" % (pick(["a", "b", "x1", "left", "fn", "a.b"], 3), ref)
                elif r < 0.18:
                    ref = "%s?=%s" % (rng.choice(["a", "b", "has"]), ref)
                asg.append(ref)
            p_ = " ".join(asg)
            if rng.random() < 0.25:
                p_ += prod_meta()
            prods.append(p_)
        return " | ".join(prods)

    lines = []
    if rng.random() < odd / 4:
        lines.append("import 'other.rustemo'%s;" % rng.choice(["", " as o"]))
    for n in rule_names:
        ann = ("@vec\n" if rng.random() > odd else "@x\n") if rng.random() < 0.06 else ""
        rm = prod_meta() if rng.random() < 0.1 else ""
        lines.append("%s%s%s: %s;" % (ann, n, rm, rhs(0)))
    tl = []
    for k, n in enumerate(term_names):
        r = rng.random()
        rec = ("'%s'" % "abcd"[k]) if r < 0.55 else pick(DOC_REGEXES, 3)
        if rng.random() < odd:
            rec = rng.choice(DOC_STRS + [""])
        meta = ""
        if rng.random() < 0.15:
            meta = " {" + ", ".join(rng.choice(["prefer", "finish", "nofinish", "left", "right", "reduce", "shift",
                                                "dynamic", "5", "15", "x: 1", "kind: 'q'"])
                                    for _ in range(rng.choice([1, 1, 2]))) + "}"
        tl.append("%s: %s%s;" % (n, rec, meta))
    # inline strings need a terminal with that recogniser
    for k, s_ in enumerate(dict.fromkeys(used_strs)):
        if rng.random() >= odd:
            tl.append("Q%d: %s;" % (k, s_))
    if rng.random() < 0.06:
        # a terminal no rule uses, now and then without a recogniser
        tl.append("Spare: %s;" % rng.choice(["'s'", "/s+/", ""]))
    if rng.random() < odd / 2 and tl:
        tl.append(rng.choice(tl))
    rng.shuffle(tl)
    if tl and rng.random() >= odd / 4:
        lines.append("terminals")
        lines += tl
    sep = rng.choice(["\n", "\n", "\n", " ", "\r\n", "\n// c\n", " /* c */ "])
    return sep.join(lines) + "\n"


# ---------------------------------------------------------------------------
# A small reader of grammar TEXT for the signatures of recorded findings (what the
# compiler makes of a text is judged by Builder.tla on the compiler's own dump; this
# reader only has to recognise rule shapes).
def read_rules(text):
    """{rule name: [alternatives]}; an alternative is a list of symbols, a symbol is
    (name-or-string, operator or "", has separator).  EMPTY contributes nothing.  The
    helper rules of the repetition operators are added under the compiler's names."""
    import re
    text = re.sub(r"/\*.*?\*/", " ", text, flags=re.S)
    text = re.sub(r"//[^\n]*", " ", text)
    body = re.split(r"\bterminals\b", text)[0]
    toks = re.findall(r"'(?:[^'\\]|\\.)*'|\"(?:[^\"\\]|\\.)*\"|@\w+|[A-Za-z_][\w.]*|\?=|[*+?]!?|[:;|{}\[\](),=]", body)
    rules = {}
    i = 0
    n = len(toks)
    while i < n:
        if toks[i].startswith("@"):
            i += 1
            continue
        name = toks[i]
        i += 1
        if i < n and toks[i] == "{":
            while i < n and toks[i] != "}":
                i += 1
            i += 1
        if i >= n or toks[i] != ":":
            # not a rule head: resynchronise at the next ';'
            while i < n and toks[i] != ";":
                i += 1
            i += 1
            continue
        i += 1
        alts = [[]]
        while i < n and toks[i] != ";":
            t = toks[i]
            if t == "|":
                alts.append([])
            elif t == "{":
                while i < n and toks[i] != "}":
                    i += 1
            elif t in ("=", "?="):
                if alts[-1]:
                    alts[-1].pop()       # the token before was the assignment name
            elif t in ("*", "+", "?", "*!", "+!", "?!"):
                if alts[-1]:
                    s0 = alts[-1][-1]
                    alts[-1][-1] = (s0[0], t[0], s0[2])
            elif t == "[":
                sepname = toks[i + 1] if i + 1 < n and toks[i + 1] != "]" else True
                while i < n and toks[i] != "]":
                    i += 1
                if alts[-1]:
                    s0 = alts[-1][-1]
                    alts[-1][-1] = (s0[0], s0[1], sepname)
            elif t in ("(", ")", ",", ":"):
                pass
            elif t != "EMPTY":
                alts[-1].append((t, "", False))
            i += 1
        i += 1
        rules.setdefault(name, []).extend(alts)
    # helper rules
    out = {}
    for name, alts in rules.items():
        na = []
        for a in alts:
            syms = []
            for (sname, op, sep) in a:
                if not op:
                    syms.append(sname)
                    continue
                base = sname
                one, zero, opt = base + "1", base + "0", base + "Opt"
                if op in ("+", "*"):
                    out.setdefault(one, [[one, base], [base]] if not sep else [[one, sep, base], [base]])
                if op == "*":
                    out.setdefault(zero, [[one], []])
                if op == "?":
                    out.setdefault(opt, [[base], []])
                syms.append({"+": one, "*": zero, "?": opt}[op])
            na.append(syms)
        out.setdefault(name, [])
        out[name] = out[name] + na if name in rules else na
    return out


def string_terminals(text):
    """Names of the terminals declared with a string recogniser (they carry no content)."""
    import re
    parts = re.split(r"\bterminals\b", re.sub(r"//[^\n]*", " ", re.sub(r"/\*.*?\*/", " ", text, flags=re.S)), maxsplit=1)
    if len(parts) < 2:
        return set()
    return set(re.findall(r"([A-Za-z_][\w.]*)\s*:\s*(?:'|\")", parts[1]))


def nullable_of(rules):
    nullable = set()
    changed = True
    while changed:
        changed = False
        for n, alts in rules.items():
            if n not in nullable and any(all(x in nullable for x in a) for a in alts):
                nullable.add(n)
                changed = True
    return nullable


def text_is_cyclic(text):
    """A =>+ A for some non-terminal of the grammar text (repetition operators expanded)."""
    rules = read_rules(text)
    nullable = nullable_of(rules)
    edges = {n: set() for n in rules}
    for n, alts in rules.items():
        for a in alts:
            for i, x in enumerate(a):
                if x in rules and all(y in nullable for y in a[:i] + a[i + 1:]):
                    edges[n].add(x)
    # reachability
    for n in rules:
        seen = set()
        todo = list(edges[n])
        while todo:
            x = todo.pop()
            if x == n:
                return True
            if x in seen:
                continue
            seen.add(x)
            todo += list(edges.get(x, ()))
    return False
