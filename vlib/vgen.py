"""vgen: a scratch crate of *generated* parsers.

For every instance (grammar text + settings) the real compiler (through
vhist, i.e. Settings::process_grammar) writes the parser (and actions) into
its own module of one scratch crate; a query module emitted from the hook's
table dump asks the generated ParserDefinition every (state, token),
(state, nonterminal) and state question and runs the generated parser on
the instance's inputs.  The crate is built with cargo (rustc errors are data:
attributed to the instance whose files they are in) and run once.
"""
import json
import os
import re
import shutil
import subprocess
import time
from concurrent.futures import ThreadPoolExecutor

from . import run

VGEN = os.path.join(run.VERIF, ".cache", "vgen")


def rust_str(s):
    return json.dumps(s)


def query_module(inst, T):
    """Rust source of q.rs for one instance, from the dumped table T."""
    terms = [t["name"] for t in T["terms"]]
    nts = [n["name"] for n in T["nonterms"]]
    nterm = T["nterm"]

    def symname(s):
        return terms[s] if s < nterm else nts[s - nterm]
    states = ["%sS%d" % (symname(st["sym"]), i) for i, st in enumerate(T["states"])]
    pk = []
    for pi, p in enumerate(T["prods"]):
        if p["lhs"] in (T["aug"], T["augl"]):
            continue
        nt = nts[p["lhs"] - nterm]
        pk.append((pi, "%s%s" % (nt, p["kind"] if p["kind"] else "P%d" % (p["ntidx"] + 1))))
    glr = inst["settings"].get("algo") == "glr"
    builder = inst["settings"].get("builder", "generic")
    lines = []
    a = lines.append
    a("#![allow(unused_imports, dead_code, unused_variables)]")
    a("use super::g::*;")
    a("use rustemo::{Action, Parser, ParserDefinition};")
    a("fn pk(p: ProdKind) -> usize { match p { %s } }" % " ".join("ProdKind::%s => %d," % (n, i) for i, n in pk))
    a("fn act(a: &Action<State, ProdKind>) -> String { match a {")
    a('  Action::Shift(s) => format!("[\\"s\\",{},-1,-1]", *s as usize),')
    a('  Action::Reduce(p, n) => format!("[\\"r\\",-1,{},{}]", pk(*p), n),')
    a('  Action::Accept => "[\\"a\\",-1,-1,-1]".to_string(),')
    a('  Action::Error => "[\\"e\\",-1,-1,-1]".to_string(), } }')
    a("pub fn table() -> String {")
    a("  let states = [%s];" % ", ".join("State::" + s for s in states))
    a("  let tks = [%s];" % ", ".join("TokenKind::" + t for t in terms))
    a("  let nts = [%s];" % ", ".join("NonTermKind::" + n for n in nts))
    a("  let mut actions = vec![]; let mut gotos = vec![]; let mut expected = vec![];")
    a("  for s in states.iter() {")
    a("    let mut row = vec![];")
    a("    for t in tks.iter() {")
    a('      let cell: Vec<String> = PARSER_DEFINITION.actions(*s, *t).iter().map(act).collect();')
    a('      row.push(format!("[{}]", cell.join(",")));')
    a("    }")
    a('    actions.push(format!("[{}]", row.join(",")));')
    a("    let mut grow = vec![];")
    a("    for n in nts.iter() {")
    a("      let (s2, n2) = (*s, *n);")
    a("      let g = std::panic::catch_unwind(move || PARSER_DEFINITION.goto(s2, n2) as usize as i64).unwrap_or(-1);")
    a("      grow.push(g.to_string());")
    a("    }")
    a('    gotos.push(format!("[{}]", grow.join(",")));')
    a('    let ex: Vec<String> = PARSER_DEFINITION.expected_token_kinds(*s).iter().map(|(t, f)| format!("[{},{}]", *t as usize, if *f {1} else {0})).collect();')
    a('    expected.push(format!("[{}]", ex.join(",")));')
    a("  }")
    defname = "GParserDefinition"
    a('  format!("{{\\"lm\\":{},\\"go\\":{},\\"actions\\":[{}],\\"gotos\\":[{}],\\"expected\\":[{}]}}",')
    a("    <%s as ParserDefinition<State, ProdKind, TokenKind, NonTermKind>>::longest_match()," % defname)
    a("    <%s as ParserDefinition<State, ProdKind, TokenKind, NonTermKind>>::grammar_order()," % defname)
    a('    actions.join(","), gotos.join(","), expected.join(","))')
    a("}")
    # running the generated parser
    a("pub fn run_one(input: &str) -> String {")
    a("  let input: &'static str = Box::leak(input.to_string().into_boxed_str());")
    a("  let r = std::panic::catch_unwind(move || {")
    if glr and builder == "default":
        a("    let parser = GParser::new();")
        a("    match parser.parse(input) {")
        a('      Ok(forest) => { let n = forest.solutions(); let mut out = format!("ok n={} ", n);')
        a("        for i in 0..n.min(8) { let mut b = DefaultBuilder::new(); let t = forest.get_tree(i).unwrap();")
        a('          out.push_str(&format!("{:?} ;; ", t.build(&mut b))); } out }')
        a('      Err(e) => format!("err {}", e.to_pos_str()) }')
    elif glr:
        a("    let parser = GParser::new();")
        a("    match parser.parse(input) {")
        a('      Ok(forest) => { let n = forest.solutions(); let mut out = format!("ok n={} ", n);')
        a("        for i in 0..n.min(8) { let mut b = rustemo::TreeBuilder::new(); let t = forest.get_tree(i).unwrap();")
        a('          out.push_str(&format!("{:?} ;; ", t.build::<_, State>(&mut b))); } out }')
        a('      Err(e) => format!("err {}", e.to_pos_str()) }')
    else:
        a("    let parser = GParser::new();")
        a("    match parser.parse(input) {")
        a('      Ok(r) => format!("ok {:?}", r),')
        a('      Err(e) => format!("err {}", e.to_pos_str()) }')
    a("  });")
    a('  match r { Ok(s) => s, Err(_) => "panic".to_string() }')
    a("}")
    # ONE parser object for a whole sequence of inputs (separated by \\x1f), each input first
    # spoilt (a foreign character appended: the parse fails after its shifts) and then as it is
    a("pub fn run_seq(inputs: &str) -> String {")
    if glr:
        a("  String::new()")
    else:
        a("  let inputs: &'static str = Box::leak(inputs.to_string().into_boxed_str());")
        a("  let r = std::panic::catch_unwind(move || {")
        a("    let parser = GParser::new();")
        a("    let mut out: Vec<String> = vec![];")
        a("    for input in inputs.split('\\u{1f}') {")
        a('      let bad: &\'static str = Box::leak(format!("{} ~", input).into_boxed_str());')
        a("      let _ = parser.parse(bad);")
        a("      out.push(match parser.parse(input) {")
        a('        Ok(r) => format!("ok {:?}", r),')
        a('        Err(e) => format!("err {}", e.to_pos_str()) });')
        a("    }")
        a('    out.join("\\u{1f}")')
        a("  });")
        a('  match r { Ok(s) => s, Err(_) => "panic".to_string() }')
    a("}")
    return "\n".join(lines) + "\n"


def build(work, instances, need_run=True, jobs=run.NCPU):
    """instances: [{name, grammar, settings, inputs:[str], table: dumped T or None}].
    Returns {name: {"generated": outcome, "rustc": [errors], "table": {...}|None, "runs": [str]}}."""
    run.build_harness()
    crate = os.path.join(VGEN, "crate")
    shutil.rmtree(crate, ignore_errors=True)
    os.makedirs(os.path.join(crate, "src"), exist_ok=True)
    lock = os.path.join(crate, "Cargo.lock")
    shutil.copy(os.path.join(run.HARNESS, "Cargo.lock"), lock)
    with open(os.path.join(crate, "Cargo.toml"), "w") as f:
        f.write('[package]\nname = "vgen"\nversion = "0.1.0"\nedition = "2021"\n\n[workspace]\n\n'
                '[dependencies]\nrustemo = { path = "%s/rustemo" }\n\n'
                '[profile.dev]\nopt-level = 0\ndebug = false\nincremental = false\ncodegen-units = 64\n'
                % run.REPO)
    os.makedirs(os.path.join(crate, ".cargo"), exist_ok=True)
    with open(os.path.join(crate, ".cargo", "config.toml"), "w") as f:
        f.write('[net]\noffline = true\n[build]\ntarget-dir = "%s"\n' % os.path.join(VGEN, "target"))
    # 1. generate with the real compiler (API, fresh batch processes)
    reqs = []
    for inst in instances:
        d = os.path.join(crate, "src", inst["name"])
        os.makedirs(d, exist_ok=True)
        gp = os.path.join(d, "g.rustemo")
        with open(gp, "w") as f:
            f.write(inst["grammar"])
        if inst.get("history"):
            # the same grammar compiled to the same place with OTHER settings first: what is on
            # disk afterwards has to be the parser of the LAST compilation
            st0 = dict(inst["settings"], force=True)
            st0["gen"] = "functions" if st0.get("gen") == "arrays" else "arrays"
            st0["algo"] = "lr" if st0.get("algo") == "glr" else "glr"
            reqs.append({"id": inst["name"] + "~pre", "grammar_path": gp, "settings": st0,
                         "out_dir": d, "out_dir_actions": d})
        reqs.append({"id": inst["name"], "grammar_path": gp, "settings": dict(inst["settings"], force=True),
                     "out_dir": d, "out_dir_actions": d})
    shards = [[] for _ in range(jobs)]
    names = sorted({r["id"].split("~")[0] for r in reqs})
    slot = {n: i % jobs for i, n in enumerate(names)}
    for r in reqs:
        shards[slot[r["id"].split("~")[0]]].append(r)

    def gen(k):
        if not shards[k]:
            return []
        cp = work.path("vgen", "req%d.ndjson" % k)
        op = work.path("vgen", "res%d.ndjson" % k)
        with open(cp, "w") as f:
            for r in shards[k]:
                f.write(json.dumps(r) + "\n")
        subprocess.run([run.vhist_bin(), "batch", cp, op], capture_output=True, text=True,
                       env=run.clean_env(), timeout=1800)
        return run.read_ndjson(op) if os.path.exists(op) else []
    with ThreadPoolExecutor(max_workers=jobs) as ex:
        gres = {r["id"]: r for part in ex.map(gen, range(jobs)) for r in part}
    out = {}
    live = []
    for inst in instances:
        r = gres.get(inst["name"], {"outcome": "crash", "class": "crash", "msg": ""})
        out[inst["name"]] = {"generated": r["outcome"], "class": r.get("class", ""), "msg": r.get("msg", "")[:300],
                             "rustc": [], "table": None, "runs": []}
        d = os.path.join(crate, "src", inst["name"])
        if r["outcome"] != "ok" or not os.path.exists(os.path.join(d, "g.rs")):
            continue
        has_actions = os.path.exists(os.path.join(d, "g_actions.rs"))
        custom = inst["settings"].get("builder") == "custom" or inst["settings"].get("lexer") == "custom"
        with open(os.path.join(d, "mod.rs"), "w") as f:
            f.write("#![allow(warnings)]\npub mod g;\n")
            if has_actions:
                f.write("pub mod g_actions;\n")
            if inst.get("table") is not None and not custom:
                f.write("pub mod q;\n")
            for extra in inst.get("extra_mods", []):
                f.write("pub mod %s;\n" % extra[0])
        for extra in inst.get("extra_mods", []):
            with open(os.path.join(d, extra[0] + ".rs"), "w") as f:
                f.write(extra[1])
        if inst.get("table") is not None and not custom:
            with open(os.path.join(d, "q.rs"), "w") as f:
                f.write(query_module(inst, inst["table"]))
        live.append(inst)
    # 2. build, attributing rustc errors to instances; drop failing ones and retry
    env = dict(run.clean_env(), CARGO_NET_OFFLINE="true")
    for attempt in range(4):
        with open(os.path.join(crate, "src", "main.rs"), "w") as f:
            f.write("#![allow(warnings)]\n")
            for inst in live:
                f.write("mod %s;\n" % inst["name"])
            f.write("fn guarded(name: &str, f: fn(&str) -> String, input: String) -> String {\n"
                    "  let (tx, rx) = std::sync::mpsc::channel();\n"
                    "  std::thread::Builder::new().stack_size(1 << 30).spawn(move || { let _ = tx.send(f(&input)); }).unwrap();\n"
                    "  match rx.recv_timeout(std::time::Duration::from_secs(30)) {\n"
                    "    Ok(s) => s,\n"
                    "    Err(_) => { println!(\"@@R {} hang\", name); std::process::exit(7); }\n  }\n}\n")
            f.write("fn main() {\n  std::panic::set_hook(Box::new(|_| {}));\n"
                    "  let inputs: std::collections::HashMap<String, Vec<String>> = {\n"
                    "    let text = std::fs::read_to_string(std::env::args().nth(1).unwrap()).unwrap();\n"
                    "    let mut m = std::collections::HashMap::new();\n"
                    "    let mut cur = String::new();\n"
                    "    for line in text.lines() { if let Some(n) = line.strip_prefix(\"@@ \") { cur = n.to_string(); m.insert(cur.clone(), vec![]); }\n"
                    "      else { let v: &mut Vec<String> = m.get_mut(&cur).unwrap(); v.push(line.replace(\"\\\\n\", \"\\n\").replace(\"\\\\t\", \"\\t\").replace(\"\\\\\\\\\", \"\\\\\")); } }\n"
                    "    m };\n")
            f.write("  let after = std::env::args().nth(2).unwrap_or_default();\n  let mut go = after.is_empty();\n")
            for inst in live:
                if inst.get("table") is None or inst["settings"].get("builder") == "custom" \
                        or inst["settings"].get("lexer") == "custom":
                    continue
                n = inst["name"]
                f.write('  if !go { if after == "%s" { go = true; } } else {\n' % n)
                f.write('  println!("@@B %s");\n' % n)
                f.write('  println!("@@T %s {}", %s::q::table());\n' % (n, n))
                f.write('  for i in inputs.get("%s").map(|v| v.as_slice()).unwrap_or(&[]) { println!("@@R %s {}", guarded("%s", %s::q::run_one, i.clone()).replace("\\n", " ")); }\n' % (n, n, n, n))
                if inst.get("session"):
                    f.write('  if let Some(v) = inputs.get("%s") { if !v.is_empty() { println!("@@Q %s {}", guarded("%s", %s::q::run_seq, v.join("\\u{1f}")).replace("\\n", " ")); } }\n' % (n, n, n, n))
                f.write('  }\n')
            f.write("}\n")
        t0 = time.time()
        cmd = ["cargo", "build" if need_run else "check", "--offline", "--message-format=json", "-j", str(jobs)]
        r = subprocess.run(cmd, cwd=crate, env=env, capture_output=True, text=True)
        run.log("vgen cargo %s: %d instances, %.1fs, rc=%d" % (cmd[1], len(live), time.time() - t0, r.returncode))
        errs = {}
        other = []
        for line in r.stdout.split("\n"):
            if not line.startswith("{"):
                continue
            try:
                m = json.loads(line)
            except Exception:
                continue
            if m.get("reason") != "compiler-message" or m["message"].get("level") != "error":
                continue
            msg = m["message"]
            spans = msg.get("spans") or []
            fn = spans[0]["file_name"] if spans else ""
            mm = re.search(r"src/([^/]+)/(\w+)\.rs", fn)
            code = (msg.get("code") or {}).get("code", "")
            if mm:
                prim = next((sp for sp in spans if sp.get("is_primary")), spans[0])
                src = "".join(t.get("text", "")[t.get("highlight_start", 1) - 1:t.get("highlight_end", 1) - 1]
                              for t in (prim.get("text") or [])[:1])
                errs.setdefault(mm.group(1), []).append({"file": mm.group(2), "code": code,
                                                         "msg": msg["message"][:200],
                                                         "label": (prim.get("label") or "")[:120],
                                                         "src": src[:60]})
            else:
                other.append(msg["message"][:200])
        if r.returncode == 0:
            break
        if not errs:
            raise run.ToolError("vgen crate does not build: %s %s" % (other[:3], r.stderr[-500:]))
        for name, es in errs.items():
            out[name]["rustc"] = es[:8]
        live = [i for i in live if i["name"] not in errs]
    else:
        raise run.ToolError("vgen crate still failing after retries")
    # 3. run
    if need_run:
        ip = work.path("vgen", "inputs.txt")
        with open(ip, "w") as f:
            for inst in live:
                f.write("@@ %s\n" % inst["name"])
                for t in inst.get("inputs", []):
                    f.write(t.replace("\\", "\\\\").replace("\n", "\\n").replace("\t", "\\t") + "\n")
        exe = os.path.join(VGEN, "target", "debug", "vgen")
        after = ""
        for _ in range(50):
            r = subprocess.run("ulimit -v 8000000; ulimit -s 1000000; exec %s %s %s" % (exe, ip, after), shell=True,
                               executable="/bin/bash", capture_output=True, text=True, timeout=1800)
            cur = None
            for line in r.stdout.split("\n"):
                if line.startswith("@@B "):
                    cur = line.split(" ", 1)[1].strip()
                    out[cur]["runs"] = []
                elif line.startswith("@@T "):
                    _, name, js = line.split(" ", 2)
                    out[name]["table"] = json.loads(js)
                elif line.startswith("@@R "):
                    _, name, rest = line.split(" ", 2)
                    out[name]["runs"].append(rest)
                elif line.startswith("@@Q "):
                    _, name, rest = (line.split(" ", 2) + [""])[:3]
                    out[name]["session"] = rest.split("\x1f")
            if r.returncode == 0 or cur is None:
                break
            # the process died inside instance `cur` (stack overflow / abort in generated
            # parser or runtime): record it and continue after it
            run.log("vgen binary died in %s (exit %d)" % (cur, r.returncode))
            out[cur]["crashed"] = True
            if r.returncode != 7:   # 7: watchdog, the "hang" line is already recorded
                out[cur]["runs"].append("crash")
            after = cur
    return out
