#!/bin/bash
# tools_seedrun.sh <seed-id> [props...] : apply a seeded change to the repository, run the checks, undo it.
# The repository is $VERIF_REPO (default /repo); the checks are the ones next to this script.
here=$(cd "$(dirname "$0")" && pwd)
repo=${VERIF_REPO:-/repo}
s=$1; shift
props="$@"
d=$here/seeded/$s
[ -z "$props" ] && props=$(python3 -c "import json;print(json.load(open('$d/meta.json'))['breaks'])")
git -C $repo status --short | grep -q . && { echo "repo dirty"; exit 2; }
git -C $repo apply $d/patch.diff || { echo "APPLY-FAIL $s"; exit 2; }
for p in $props; do
  out=$(cd $here && ./check $p --tier quick 2>&1); rc=$?
  n=$(echo "$out" | grep -c "^VIOLATION")
  echo "SEED $s check=$p exit=$rc violations=$n"
  echo "$out" | grep "^\[check\]   " | head -4
done
git -C $repo checkout -- .
