#!/bin/bash
# tools_seedrun.sh <seed-id> [props...] : apply a seeded change to /repo, run the checks, undo it.
s=$1; shift
props="$@"
d=/verif/seeded/$s
[ -z "$props" ] && props=$(python3 -c "import json;print(json.load(open('$d/meta.json'))['breaks'])")
cd /repo && git status --short | grep -q . && { echo "repo dirty"; exit 2; }
git -C /repo apply $d/patch.diff || { echo "APPLY-FAIL $s"; exit 2; }
for p in $props; do
  out=$(cd /verif && ./check $p --tier quick 2>&1); rc=$?
  n=$(echo "$out" | grep -c "^VIOLATION")
  echo "SEED $s check=$p exit=$rc violations=$n"
  echo "$out" | grep "^\[check\]   " | head -3
done
git -C /repo checkout -- .
