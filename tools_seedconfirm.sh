#!/bin/bash
# tools_seedconfirm.sh <seed-id> : re-runs, in the sub-agent's scratch worktree, the three checks a seeded
# change has to pass (suite green with the patch; demonstration fails with it, passes without) and writes
# /tmp/seed/<id>/verify.log.  Leaves the worktree WITHOUT the patch.
s=$1; d=/tmp/seed/$s; export CARGO_NET_OFFLINE=true
cd $d/wt || exit 2
git checkout -- tests 2>/dev/null
git diff --quiet && git apply $d/out/patch.diff
git status --short | grep -v '^ M tests/' > $d/verify.log
CARGO_TARGET_DIR=$d/wt/target cargo nextest run --workspace --no-fail-fast --test-threads 8 --offline 2>&1 | grep -E "tests run" >> $d/verify.log
git checkout -- tests 2>/dev/null
demo() {
  if [ -f $d/out/demo.sh ]; then bash $d/out/demo.sh; return; fi
  cd $d/out/demo || return 2
  if [ -f ./demo.sh ]; then bash ./demo.sh
  elif [ -f ./run.sh ]; then CARGO_TARGET_DIR=$d/wt/target/demo bash ./run.sh
  elif [ "$(grep -o -m1 'cargo \(test\|run\)' README.md 2>/dev/null | head -1)" = "cargo test" ]; then touch build.rs 2>/dev/null; CARGO_TARGET_DIR=$d/wt/target/demo cargo test --offline
  else touch build.rs 2>/dev/null; CARGO_TARGET_DIR=$d/wt/target/demo cargo run --offline; fi
}
( demo ) > $d/demo_with.log 2>&1; echo "demo with the patch: rc=$?" >> $d/verify.log
cd $d/wt && git apply -R $d/out/patch.diff
( demo ) > $d/demo_without.log 2>&1; echo "demo without the patch: rc=$?" >> $d/verify.log
cat $d/verify.log
