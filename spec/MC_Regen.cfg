CONSTANT MaxOps = 4
INIT Init
NEXT Next
INVARIANT Holds
INVARIANT NoDup
INVARIANT Idempotent
CHECK_DEADLOCK FALSE
