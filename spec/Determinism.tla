----------------------------- MODULE Determinism ---------------------------
(***************************************************************************)
(* C17: parser generation as a function of (grammar, effective settings).  *)
(*                                                                         *)
(* A compile event is [g, given, via, proc, out]: grammar id, the options  *)
(* as the user gave them (the same record for the rcomp command line and   *)
(* for the library API), "cli" | "api" | "dir", a process id, and the      *)
(* digest of everything written (parser file, actions file) or the error.  *)
(*                                                                         *)
(* Effective(given) is the documented meaning of the options: the Settings *)
(* builder methods applied in the order rcomp applies them, where choosing *)
(* GLR overrides the table type (LALR_RN) and switches the two shift       *)
(* preferences and grammar-order off, and explicit --lexical-disamb-*      *)
(* options are applied after that.  "u" means "not given".                 *)
(*                                                                         *)
(* Property: events with the same grammar and the same effective settings  *)
(* have the same output -- in every process, through CLI and API alike.    *)
(***************************************************************************)
EXTENDS Integers, Sequences, FiniteSets

Tri(v, d) == IF v = "u" THEN d ELSE v = "t"

Effective(g) ==
  LET glr == g.algo = "glr"
      tt0 == IF g.tt = "u" THEN "pager" ELSE g.tt
      go0 == IF glr THEN FALSE ELSE TRUE
  IN [algo |-> g.algo,
      tt |-> IF glr THEN "rn" ELSE tt0,
      ps |-> IF glr THEN FALSE ELSE g.ps,
      pse |-> IF glr THEN FALSE ELSE g.pse,
      ms |-> Tri(g.ms, TRUE), lm |-> Tri(g.lm, TRUE), go |-> Tri(g.go, go0),
      gen |-> g.gen, lexer |-> g.lexer, builder |-> g.builder, loc_info |-> g.loc_info,
      fancy |-> g.fancy, partial |-> g.partial, skip_ws |-> g.skip_ws, actions |-> g.actions,
      \* the input type of a custom lexer is written into the parser; --dot and --print-table
      \* write other things and must not change the parser or the actions
      input |-> g.input]

\* the set of pairs of events that must agree but do not
Disagreements(E) ==
  {<<i, j>> \in (1 .. Len(E)) \X (1 .. Len(E)) :
      /\ i < j
      /\ E[i].g = E[j].g
      /\ Effective(E[i].given) = Effective(E[j].given)
      /\ E[i].out # E[j].out}
=============================================================================
