------------------------------- MODULE MCI_GLR -----------------------------
(***************************************************************************)
(* MODEL CHECKING the GLR runtime specification over the LALR_RN tables    *)
(* the REAL compiler produced: for every dumped table and EVERY token      *)
(* string up to MAXLEN (next token chosen nondeterministically; one TLC    *)
(* state per frontier) the forest GLRRuntime builds is compared with the   *)
(* oracles: accepted iff Earley sentence; number of solutions = number of  *)
(* derivation trees (Trees.NT); no tree twice; an input is rejected only   *)
(* at a token that cannot continue the prefix; no abort, no runaway        *)
(* reducer.  Grammars: without disambiguation meta-data; the counting      *)
(* monitors only for non-cyclic, not epsilon-ambiguous ones (scope of C03).*)
(***************************************************************************)
EXTENDS GLRRuntime, TLC, Json, IOUtils

Dumps  == ndJsonDeserialize(IOEnv.DUMPS)
MaxLen == atoi(IOEnv.MAXLEN)
Ctxs   == [i \in 1 .. Len(Dumps) |-> Ctx(Dumps[i].t)]
Cyc    == [i \in 1 .. Len(Dumps) |-> Cyclic(Dumps[i].t, Ctxs[i].N)]
EpsAmb == [i \in 1 .. Len(Dumps) |-> IF Cyc[i] THEN TRUE ELSE EpsAmbiguous(Ctxs[i])]

VARIABLES g, w, G, last, ch
vars == <<g, w, G, last, ch>>
T == Dumps[g].t
C == Ctxs[g]

Init ==
  /\ g \in 1 .. Len(Dumps)
  /\ w = <<>>
  /\ G = InitG(Dumps[g].t)
  /\ last = -1
  /\ ch = Chart(Ctxs[g], <<>>, 0)

Running == G.base # {} /\ ~G.abort /\ ~G.hang

Next ==
  /\ Running
  /\ \E t \in (IF Len(w) < MaxLen THEN Terms(T) ELSE {T.stop}) :
       LET G2 == Frontier(T, G, t)
           shifted == G2.base # {}
       IN /\ G' = G2
          /\ last' = t
          /\ w' = IF shifted THEN Append(w, t) ELSE w
          /\ ch' = IF shifted /\ Len(ch) = Len(w) + 1
                   THEN LET sc == Scan(T, ch[Len(ch)], t)
                        IN IF sc = {} THEN ch ELSE Append(ch, EClose(C, ch, Len(w) + 1, sc))
                   ELSE ch
          /\ g' = g
Spec == Init /\ [][Next]_vars

Report(prop, what, extra) ==
  PrintT(<<"VERDICT", ToJson([prop |-> prop, what |-> what, id |-> Dumps[g].id, g |-> g, tt |-> "rn",
                               w |-> w, la |-> last, status |-> extra])>>)

Viable == Len(ch) = Len(w) + 1
IsSentence == Viable /\ Accepts(C, ch, w, 0)
Done == ~Running
Ok == Len(G.acc) > 0
InScope == ~Cyc[g] /\ ~EpsAmb[g]
LastContinues == IF last = T.stop THEN IsSentence ELSE Viable /\ Scan(T, ch[Len(ch)], last) # {}

Monitors ==
  /\ (Viable \/ ~Reduced(T, C.P) \/ Report("C12", "shifted_token_makes_nonviable_prefix", ""))
  /\ (~G.abort \/ Report("C15", "abort", ""))
  /\ (~G.hang \/ Cyc[g] \/ Report("C15", "reducer_does_not_terminate", ""))
  /\ (~Done \/ G.abort \/ G.hang \/
        /\ (~Ok \/ IsSentence \/ Report("C03", "accepted_nonsentence", ""))
        /\ (Ok \/ ~InScope \/ ~LastContinues \/ Report("C03", "rejected_viable_continuation", ""))
        /\ (~Ok \/ ~InScope \/ ~IsSentence \/ Solutions(G) = NTrees(C, w)
              \/ Report("C03", "solutions_differ", <<Solutions(G), NTrees(C, w)>>))
        /\ (~Ok \/ ~InScope \/ ~IsSentence \/ Cardinality(ForestTrees(G)) = Solutions(G)
              \/ Report("C03", "duplicate_tree", <<Cardinality(ForestTrees(G)), Solutions(G)>>)))
=============================================================================
