------------------------------- MODULE Settings ----------------------------
(***************************************************************************)
(* OPERATIONAL: rustemo_compiler::Settings as a state machine.  The        *)
(* builder methods are not independent setters: choosing GLR overrides the *)
(* table type, both shift preferences and grammar order; grammar order     *)
(* cannot be switched off for LR; placing actions in the source tree       *)
(* switches `force` off unless it was given explicitly.  A configuration   *)
(* is therefore a SEQUENCE of calls and the order matters.                 *)
(*                                                                         *)
(* call = <<method, arg>>; Apply returns the next settings record or the   *)
(* record with abort = TRUE where the code panics on purpose (documented   *)
(* misuse).  Observable(s) is what can be read back from the generated     *)
(* parser source.                                                          *)
(***************************************************************************)
EXTENDS Integers, Sequences

Default ==
  [algo |-> "lr", tt |-> "pager", ps |-> FALSE, pse |-> TRUE, ms |-> TRUE, lm |-> TRUE, go |-> TRUE,
   partial |-> FALSE, skip_ws |-> TRUE, gen |-> "functions", builder |-> "default", lexer |-> "default",
   loc_info |-> FALSE, force |-> TRUE, force_explicit |-> FALSE, actions_in_tree |-> FALSE, abort |-> FALSE]

Apply(s, c) ==
  LET m == c[1]
      a == c[2]
  IN IF s.abort THEN s
     ELSE CASE m = "parser_algo" ->
                 IF a = "glr" THEN [s EXCEPT !.algo = "glr", !.tt = "rn", !.ps = FALSE, !.pse = FALSE, !.go = FALSE]
                 ELSE [s EXCEPT !.algo = "lr"]
            [] m = "table_type" -> [s EXCEPT !.tt = a]
            [] m = "prefer_shifts" -> [s EXCEPT !.ps = a]
            [] m = "prefer_shifts_over_empty" -> [s EXCEPT !.pse = a]
            [] m = "most_specific" -> [s EXCEPT !.ms = a]
            [] m = "longest_match" -> [s EXCEPT !.lm = a]
            [] m = "grammar_order" -> IF s.algo = "lr" /\ ~a THEN [s EXCEPT !.abort = TRUE] ELSE [s EXCEPT !.go = a]
            [] m = "partial_parse" -> [s EXCEPT !.partial = a]
            [] m = "skip_ws" -> [s EXCEPT !.skip_ws = a]
            [] m = "generator_table_type" -> [s EXCEPT !.gen = a]
            [] m = "builder_type" -> [s EXCEPT !.builder = a]
            [] m = "lexer_type" -> [s EXCEPT !.lexer = a]
            [] m = "builder_loc_info" -> [s EXCEPT !.loc_info = a]
            [] m = "force" -> [s EXCEPT !.force = a, !.force_explicit = TRUE]
            [] m = "actions_in_source_tree" ->
                 IF s.builder # "default" THEN [s EXCEPT !.abort = TRUE]
                 ELSE [s EXCEPT !.actions_in_tree = TRUE, !.force = IF s.force_explicit THEN @ ELSE FALSE]
            [] OTHER -> s

RECURSIVE ApplyAll(_, _, _)
ApplyAll(s, calls, i) == IF i > Len(calls) THEN s ELSE ApplyAll(Apply(s, calls[i]), calls, i + 1)
Configure(calls) == ApplyAll(Default, calls, 1)

\* what the generated parser shows (has_layout: the grammar has a Layout rule)
Observable(s, has_layout) ==
  [algo |-> s.algo, lm |-> s.lm, go |-> s.go, partial |-> s.partial, skip_ws |-> s.skip_ws /\ ~has_layout,
   gen |-> s.gen, builder |-> s.builder]
=============================================================================
