------------------------------- MODULE Paths -------------------------------
(***************************************************************************)
(* OPERATIONAL: where Settings::process_grammar puts the generated files.  *)
(* settings.rs computes, for each of the two output roots that are set,    *)
(*     root  = root_dir, or the grammar's directory when no root dir is    *)
(*             known (plain rcomp run from a shell)                        *)
(*     dir   = out_root / (grammar directory with the root prefix removed) *)
(*             when the grammar's directory is TEXTUALLY under root,       *)
(*           = out_root / grammar path (the file path!) otherwise          *)
(* and generate_parser writes next to the grammar when no output root is   *)
(* set.  Nothing here may abort: a location that cannot be created is a    *)
(* diagnostic (C16).                                                       *)
(*                                                                         *)
(* A path is [abs : BOOLEAN, c : Seq(STRING)], components as std::path     *)
(* sees them ("." kept only in front, ".." kept everywhere, nothing        *)
(* resolved).  Absolute paths are written relative to the directory of the *)
(* case, so that recorded locations are comparable.                        *)
(***************************************************************************)
EXTENDS Integers, Sequences

None == [abs |-> FALSE, c |-> <<"<none>">>]
P(abs, c) == [abs |-> abs, c |-> c]

\* std::path::Path::parent: drops the last component ("" for a bare file name)
Parent(p) == [p EXCEPT !.c = SubSeq(p.c, 1, Len(p.c) - 1)]

\* std::path::Path::join: an absolute right-hand side replaces the left one
Join(p, q) == IF q.abs THEN q ELSE [p EXCEPT !.c = p.c \o q.c]

\* std::path::Path::strip_prefix: component-wise, both of the same kind
HasPrefix(p, pre) ==
  /\ p.abs = pre.abs
  /\ Len(pre.c) <= Len(p.c)
  /\ SubSeq(p.c, 1, Len(pre.c)) = pre.c
Strip(p, pre) == P(FALSE, SubSeq(p.c, Len(pre.c) + 1, Len(p.c)))

\* settings.rs relative_outdir
OutDir(out, root, g) ==
  LET parent == Parent(g)
      r == IF root = None THEN parent ELSE root
  IN IF HasPrefix(parent, r) THEN Join(out, Strip(parent, r)) ELSE Join(out, g)

\* the directory the parser is written to: as the code names it ...
Target(out, root, g) == IF out = None THEN Parent(g) ELSE OutDir(out, root, g)

\* ... and as the file system resolves it from the working directory (".." steps back
\* through directories that exist; a step above the case directory is not modelled)
RECURSIVE Resolve(_, _)
Resolve(acc, c) ==
  IF c = <<>> THEN acc
  ELSE IF Head(c) = "." THEN Resolve(acc, Tail(c))
  ELSE IF Head(c) = ".." THEN Resolve(IF acc = <<>> THEN acc ELSE SubSeq(acc, 1, Len(acc) - 1), Tail(c))
  ELSE Resolve(Append(acc, Head(c)), Tail(c))
At(cwd, p) == Resolve(IF p.abs THEN <<>> ELSE cwd, p.c)

IsPrefixSeq(a, b) == Len(a) <= Len(b) /\ SubSeq(b, 1, Len(a)) = a

\* a location inside (or equal to) the grammar FILE cannot be created: a diagnostic
Predict(cwd, out, root, g) ==
  LET loc == At(cwd, Target(out, root, g))
      gf  == At(cwd, g)
  IN IF IsPrefixSeq(gf, loc) THEN [outcome |-> "err", at |-> <<>>] ELSE [outcome |-> "ok", at |-> loc]

(***************************************************************************)
(* Directory processing (Settings::process_dir, rcomp <dir>): the tree     *)
(* under the root dir is walked; a path whose text contains one of the     *)
(* exclusion patterns is skipped (a directory with everything below it),   *)
(* every other *.rustemo file is processed with root dir = the root of     *)
(* the walk, so its output keeps its relative place.  A file is given as   *)
(* the sequence of its components below the root, each component as        *)
(* [n |-> name, x |-> its text contains a pattern]; rootx says the same    *)
(* for the text of the root itself.                                        *)
(***************************************************************************)
Skipped(f, rootx) == rootx \/ \E k \in 1 .. Len(f) : f[k].x
NamesOf(f) == [k \in 1 .. Len(f) |-> f[k].n]
\* the set of directories (below the case directory) that hold a generated parser
DirPredict(root, out, files, rootx) ==
  {(IF out = None THEN root.c ELSE out.c) \o SubSeq(NamesOf(files[k]), 1, Len(files[k]) - 1)
     : k \in {j \in 1 .. Len(files) : ~Skipped(files[j], rootx)}}
=============================================================================
