----------------------------- MODULE CanonLR1 ------------------------------
(***************************************************************************)
(* ORACLE for C04: the canonical LR(1) collection of a grammar and the     *)
(* predicate Faithful(T, C, type): the automaton T the compiler dumped is  *)
(* a core-preserving compression of it.                                    *)
(*                                                                         *)
(* Canonical items are <<production, dot, lookahead>>.  T is the "raw"     *)
(* dump (disambiguation meta-data reset, GLR settings), so every action    *)
(* cell still holds all its candidates and every transition is visible.    *)
(***************************************************************************)
EXTENDS Table

Next3(G, it) == IF it[2] < RhsLen(G, it[1]) THEN RhsAt(G, it[1], it[2]) ELSE -1

RECURSIVE LR1Closure(_, _)
LR1Closure(C, I) ==
  LET G   == C.G
      add == UNION {LET B == Next3(G, it)
                    IN IF B < 0 \/ IsTerm(G, B) THEN {}
                       ELSE {<<q, 0, b>> : q \in ProdsOf(G, B),
                                           b \in FirstTail(G, C.N, C.F, it[1], it[2] + 1, it[3])}
                    : it \in I}
      J   == I \cup add
  IN IF J = I THEN I ELSE LR1Closure(C, J)

LR1Goto(C, I, X) ==
  LR1Closure(C, {<<it[1], it[2] + 1, it[3]>> : it \in {x \in I : Next3(C.G, x) = X}})

Min(S) == CHOOSE x \in S : \A y \in S : x <= y

\* Work-list construction; states is a sequence of item sets, trans a set of <<i, X, j>>.
RECURSIVE CanonLoop(_, _, _, _)
CanonLoop(C, sts, tr, i) ==
  IF i > Len(sts) THEN [states |-> sts, trans |-> tr]
  ELSE LET syms == {Next3(C.G, it) : it \in sts[i]} \ {-1}
           RECURSIVE Each(_, _, _)
           Each(S, s1, t1) ==
             IF S = {} THEN <<s1, t1>>
             ELSE LET X  == Min(S)
                      g  == LR1Goto(C, s1[i], X)
                      js == {j \in 1 .. Len(s1) : s1[j] = g}
                  IN IF js # {} THEN Each(S \ {X}, s1, t1 \cup {<<i, X, Min(js)>>})
                     ELSE Each(S \ {X}, Append(s1, g), t1 \cup {<<i, X, Len(s1) + 1>>})
           r == Each(syms, sts, tr)
       IN CanonLoop(C, r[1], r[2], i + 1)

\* roots: a sequence of root productions (AUG, and AUGL when there is a Layout rule)
Canonical(C, roots) ==
  CanonLoop(C, [k \in 1 .. Len(roots) |-> LR1Closure(C, {<<roots[k], 0, C.G.stop>>})], {}, 1)

Core(I) == {<<it[1], it[2]>> : it \in I}

(* ---- the relation between canonical states and dumped states ----------- *)
\* least relation containing the root pairs and closed under common transitions
RECURSIVE RelFix(_, _, _, _)
RelFix(T, K, R, frontier) ==
  IF frontier = {} THEN R
  ELSE LET new == UNION {{<<tr[3], TTrans(T, pr[2], tr[2])>> :
                             tr \in {x \in K.trans : x[1] = pr[1] /\ TTrans(T, pr[2], x[2]) >= 0}}
                         : pr \in frontier} \ R
       IN RelFix(T, K, R \cup new, new)

Rel(T, K) ==
  LET roots == {<<k, TRootStates(T)[k]>> : k \in 1 .. Len(TRootStates(T))}
  IN RelFix(T, K, roots, roots)

(* ---- the verdict, as a set of named discrepancies (empty = faithful) --- *)
\* type: "lalr" | "pager" | "rn"
Discrepancies(T, C, type) ==
  LET G  == C.G
      K  == Canonical(C, TRoots(T))
      R  == Rel(T, K)
      Of(q) == {pr[1] : pr \in {x \in R : x[2] = q}}          \* canonical states q stands for
      Qs == 0 .. (NStates(T) - 1)
      unreachable == {<<"state_not_related", q>> : q \in {x \in Qs : Of(x) = {}}}
      cores == {<<"core_differs", pr[2]>> : pr \in {x \in R : Core(K.states[x[1]]) # TCore(T, x[2])}}
      moves == UNION {{<<"transition_differs", pr[2], X>> :
                          X \in {Y \in Symbols(G) :
                                   (\E tr \in K.trans : tr[1] = pr[1] /\ tr[2] = Y)
                                     # (TTrans(T, pr[2], Y) >= 0)}}
                      : pr \in R}
      las == UNION {{<<"lookahead_differs", q, it.p, it.d>> :
                        it \in {x \in TItems(T, q) :
                                  TLa(x) # UNION {{c[3] : c \in {y \in K.states[i] : y[1] = x.p /\ y[2] = x.d}}
                                                  : i \in Of(q)}}}
                    : q \in {x \in Qs : Of(x) # {}}}
      \* reductions each cell must / may hold, from the dumped items
      must(q, t) == {<<it.p, it.d>> : it \in {x \in TItems(T, q) :
                        x.d = RhsLen(G, x.p) /\ Lhs(G, x.p) # G.aug /\ Lhs(G, x.p) # G.augl /\ t \in TLa(x)}}
      may(q, t)  == IF type # "rn" THEN must(q, t)
                    ELSE {<<it.p, it.d>> : it \in {x \in TItems(T, q) :
                        NullableFrom(G, C.N, x.p, x.d) /\ Lhs(G, x.p) # G.aug /\ Lhs(G, x.p) # G.augl
                        /\ t \in TLa(x)}}
      reds == UNION {{<<"reductions_differ", q, t>> :
                         t \in {u \in Terms(G) : ~(must(q, u) \subseteq TReduces(T, q, u)
                                                   /\ TReduces(T, q, u) \subseteq may(q, u))}}
                     : q \in Qs}
      accs == {<<"accept_differs", q>> :
                 q \in {x \in Qs : \E t \in Terms(G) :
                          TAccepts(T, x, t) #
                            (t = G.stop /\ \E it \in TItems(T, x) :
                                it.d = 1 /\ (Lhs(G, it.p) = G.aug \/ Lhs(G, it.p) = G.augl))}}
  IN unreachable \cup cores \cup moves \cup las \cup reds \cup accs

\* RN completeness (supports C03): every right-nullable position reduces.
RNMissing(T, C) ==
  LET G == C.G
  IN UNION {{<<"rn_reduction_missing", q, it.p, it.d>> :
                it \in {x \in TItems(T, q) :
                          /\ NullableFrom(G, C.N, x.p, x.d)
                          /\ Lhs(G, x.p) # G.aug /\ Lhs(G, x.p) # G.augl
                          /\ \E t \in TLa(x) : <<x.p, x.d>> \notin TReduces(T, q, t)}}
            : q \in 0 .. (NStates(T) - 1)}

\* Conflicts of the canonical LALR(1) quotient: LALR(1) grammars must compile
\* without conflicts under every table type.
LALRConflictFree(T, C) ==
  LET G == C.G
      K == Canonical(C, TRoots(T))
      cores == {Core(K.states[i]) : i \in 1 .. Len(K.states)}
      merged(co) == UNION {K.states[i] : i \in {j \in 1 .. Len(K.states) : Core(K.states[j]) = co}}
      conflict(I) ==
        \E t \in Terms(G) :
          LET reds == {it[1] : it \in {x \in I : x[2] = RhsLen(G, x[1]) /\ x[3] = t /\ x[1] # 0
                                                   /\ Lhs(G, x[1]) # G.augl}}
              sh   == \E it \in I : Next3(G, it) = t
              acc  == t = G.stop /\ \E it \in I : it[2] = 1 /\ (Lhs(G, it[1]) = G.aug \/ Lhs(G, it[1]) = G.augl)
          IN Cardinality(reds) + (IF sh \/ acc THEN 1 ELSE 0) > 1
  IN \A co \in cores : ~conflict(merged(co))

TConflictCells(T) ==
  {<<q, t>> \in (0 .. (NStates(T) - 1)) \X Terms(T) : Cardinality(TCell(T, q, t)) > 1}
=============================================================================
