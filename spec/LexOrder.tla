------------------------------ MODULE LexOrder -----------------------------
(***************************************************************************)
(* OPERATIONAL: lexical selection as the code performs it, in three parts: *)
(*  SortTerminals  table/mod.rs sort_terminals: try-order of a state's     *)
(*                 expected terminals and the "finish" flags;              *)
(*  Iterate        lexer.rs TokenIterator: recognisers are tried in that   *)
(*                 order; iteration stops after the terminal carrying a    *)
(*                 finish flag once some terminal has matched;             *)
(*  Selected       the parser-side filters: longest match (LR: then the    *)
(*                 first token; GLR: then optionally grammar order).       *)
(* E, m, G, f as in LexDoc; terms[t+1].rl is the recogniser's byte length. *)
(***************************************************************************)
EXTENDS LexDoc

SortKey(G, t, ms) == TPrio(G, t) * 1000 + (IF ms /\ IsStr(G, t) THEN G.terms[t + 1].rl ELSE 0)

\* stable sort of E by descending key (insertion)
RECURSIVE SortDesc(_, _, _)
SortDesc(E, G, ms) ==
  IF E = <<>> THEN <<>>
  ELSE LET rest == SortDesc(Tail(E), G, ms)
           x == Head(E)
           RECURSIVE Ins(_)
           Ins(s) == IF s = <<>> THEN <<x>>
                     ELSE IF SortKey(G, x, ms) >= SortKey(G, Head(s), ms) THEN <<x>> \o s
                     ELSE <<Head(s)>> \o Ins(Tail(s))
       IN Ins(rest)

\* sequence of <<terminal, finish>>; finish = string recogniser under most-specific,
\* or last terminal of its priority group (when a lower group follows)
SortTerminals(E, G, ms) ==
  LET s == SortDesc(E, G, ms)
  IN [i \in 1 .. Len(s) |->
        <<s[i], (ms /\ IsStr(G, s[i])) \/ (i < Len(s) /\ TPrio(G, s[i + 1]) # TPrio(G, s[i]))>>]

\* TokenIterator: tokens in try order until a finish flag is passed after a match
RECURSIVE Iterate(_, _, _, _)
Iterate(sorted, m, i, matched) ==
  IF i > Len(sorted) THEN <<>>
  ELSE LET t == sorted[i][1]
           hit == m[t] >= 0
           mt == matched \/ hit
           stop == sorted[i][2] /\ mt
           rest == IF stop THEN <<>> ELSE Iterate(sorted, m, i + 1, mt)
       IN IF hit THEN <<t>> \o rest ELSE rest

\* as found before the repair: the finish flag only acted when ITS terminal matched
RECURSIVE IterateAsFound(_, _, _)
IterateAsFound(sorted, m, i) ==
  IF i > Len(sorted) THEN <<>>
  ELSE LET t == sorted[i][1]
           hit == m[t] >= 0
           rest == IF hit /\ sorted[i][2] THEN <<>> ELSE IterateAsFound(sorted, m, i + 1)
       IN IF hit THEN <<t>> \o rest ELSE rest

\* parser-side filters (lr/parser.rs next_token, glr/parser.rs find_lookaheads)
SelectedFrom(toks, m, f, algo) ==
  LET keep == IF f.lm /\ Len(toks) > 1
              THEN SelectSeq(toks, LAMBDA t : \A j \in 1 .. Len(toks) : m[t] >= m[toks[j]])
              ELSE toks
  IN IF keep = <<>> THEN {}
     ELSE IF algo = "lr" \/ f.go THEN {keep[1]}
     ELSE Range(keep)

Selected(sorted, m, f, algo) == SelectedFrom(Iterate(sorted, m, 1, FALSE), m, f, algo)
SelectedAsFound(sorted, m, f, algo) == SelectedFrom(IterateAsFound(sorted, m, 1), m, f, algo)
=============================================================================
