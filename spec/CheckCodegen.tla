----------------------------- MODULE CheckCodegen --------------------------
(* C08 (I -> S).  RECS: per generated parser the answers of the generated    *)
(* ParserDefinition (Q), the dumped table (t) with its settings, and the     *)
(* results of running the generated parser on shared inputs.  Records of the *)
(* two layouts of one (grammar, algorithm) are adjacent (arrays, functions). *)
EXTENDS Codegen, TLC, Json, IOUtils
Recs == ndJsonDeserialize(IOEnv.RECS)
VARIABLE i
Verdict(k) ==
  LET r == Recs[k]
      bad == CodegenDefects(r.q, r.t, r.cfg.lm, r.cfg.go)
      pair == k > 1 /\ Recs[k - 1].pair = r.pair
      runs == IF pair /\ Recs[k - 1].runs # r.runs
              THEN {<<"layouts_parse_differently",
                      CHOOSE j \in 1 .. Len(r.runs) : j > Len(Recs[k - 1].runs) \/ Recs[k - 1].runs[j] # r.runs[j]>>}
              ELSE {}
  IN [id |-> r.id, bad |-> bad \cup runs, nstates |-> NStates(r.t), nruns |-> Len(r.runs), paired |-> pair]
Init == i = 0
Next == /\ i < Len(Recs)
        /\ i' = i + 1
        /\ PrintT(<<"VERDICT", ToJson(Verdict(i + 1))>>)
=============================================================================
