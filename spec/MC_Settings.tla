----------------------------- MODULE MC_Settings ---------------------------
(* All call sequences of length <= MaxCalls over a method alphabet: order-     *)
(* dependence facts of Settings as invariants (they hold by construction of     *)
(* the model; what binds the model to the code is CheckSettings).               *)
EXTENDS Settings, TLC
CONSTANT MaxCalls
VARIABLES calls, s
Alphabet == {<<"parser_algo", "glr">>, <<"parser_algo", "lr">>, <<"table_type", "lalr">>, <<"table_type", "pager">>,
             <<"prefer_shifts", TRUE>>, <<"prefer_shifts_over_empty", TRUE>>, <<"grammar_order", TRUE>>,
             <<"grammar_order", FALSE>>, <<"longest_match", FALSE>>, <<"builder_type", "generic">>,
             <<"force", TRUE>>, <<"actions_in_source_tree", TRUE>>}
Init == calls = <<>> /\ s = Default
Next == /\ Len(calls) < MaxCalls
        /\ \E c \in Alphabet : calls' = Append(calls, c) /\ s' = Apply(s, c)
\* s is always the fold of the calls
Consistent == s = Configure(calls)
\* LR never runs without grammar order
LRHasGrammarOrder == s.abort \/ s.algo # "lr" \/ s.go \/ \E i \in 1 .. Len(calls) : calls[i] = <<"parser_algo", "glr">>
\* after choosing GLR the table type is RN unless table_type was called later
GlrTable ==
  s.abort \/ s.algo # "glr" \/ s.tt = "rn" \/
  \E i, j \in 1 .. Len(calls) : i < j /\ calls[i] = <<"parser_algo", "glr">> /\ calls[j][1] = "table_type"
=============================================================================
