------------------------------- MODULE MCI_LR ------------------------------
(***************************************************************************)
(* MODEL CHECKING the LR runtime specification over the tables the REAL    *)
(* compiler produced ("model over the implementation's data").             *)
(*                                                                         *)
(* TLC explores LRRuntime for every dumped table and EVERY token string up *)
(* to MAXLEN: the next token is chosen nondeterministically, so the parser *)
(* is explored as a push-down system and common prefixes are shared.  The  *)
(* Earley chart of the shifted prefix rides along in the state (it is a    *)
(* function of w, so it adds no states), which makes every oracle query    *)
(* constant work.                                                          *)
(*                                                                         *)
(* Monitors never stop TLC: a failed monitor prints a VERDICT record, so   *)
(* one run reports every violating state of every table.                   *)
(***************************************************************************)
EXTENDS LRRuntime, TLC, Json, IOUtils

Dumps  == ndJsonDeserialize(IOEnv.DUMPS)
MaxLen == atoi(IOEnv.MAXLEN)
Replay == IOEnv.REPLAY = "1"
Ctxs   == [i \in 1 .. Len(Dumps) |-> Ctx(Dumps[i].t)]
Cyc    == [i \in 1 .. Len(Dumps) |-> Cyclic(Dumps[i].t, Ctxs[i].N)]
MaxRed == 64

VARIABLES g, w, cf, la, ch
vars == <<g, w, cf, la, ch>>

T == Dumps[g].t
C == Ctxs[g]

Init ==
  /\ g \in 1 .. Len(Dumps)
  /\ w = <<>>
  /\ cf = InitCfg(0, 0)
  /\ la = -1
  /\ ch = Chart(Ctxs[g], <<>>, 0)

Candidates == IF la >= 0 THEN {la}
              ELSE IF Len(w) < MaxLen THEN Terms(T) ELSE {T.stop}

Next ==
  /\ cf.status = "run"
  /\ \E t \in Candidates :
       LET tok == [t |-> t, s |-> Len(w), e |-> Len(w) + 1]
           c2  == LexStep(T, cf, tok)
           shifted == Len(c2.stack) = Len(cf.stack) + 1 /\ c2.nred = 0 /\ c2.pos = Len(w) + 1
       IN /\ cf' = IF c2.nred > MaxRed THEN [c2 EXCEPT !.status = "hang"] ELSE c2
          /\ la' = IF shifted THEN -1 ELSE t
          /\ w'  = IF shifted THEN Append(w, t) ELSE w
          /\ ch' = IF shifted /\ Len(ch) = Len(w) + 1
                   THEN LET sc == Scan(T, ch[Len(ch)], t)
                        IN IF sc = {} THEN ch ELSE Append(ch, EClose(C, ch, Len(w) + 1, sc))
                   ELSE ch
          /\ g' = g

Spec == Init /\ [][Next]_vars

(* ---- monitors ------------------------------------------------------------ *)
Report(prop, what) ==
  PrintT(<<"VERDICT", ToJson([prop |-> prop, what |-> what, id |-> Dumps[g].id, g |-> g,
                               tt |-> Dumps[g].cfg.tt, w |-> w, la |-> la, status |-> cf.status])>>)

NoDis == Dumps[g].meta.nodis
Viable == Len(ch) = Len(w) + 1
IsSentence == Viable /\ Accepts(C, ch, w, 0)
\* can the offending lookahead continue the shifted prefix?
LaContinues ==
  IF la = T.stop THEN IsSentence
  ELSE Viable /\ Scan(T, ch[Len(ch)], la) # {}

Monitors ==
  /\ (Viable \/ ~Reduced(T, C.P) \/ Report("C12", "shifted_token_makes_nonviable_prefix"))
  /\ (cf.status # "ok" \/ IsSentence \/ Report("C02", "accepted_nonsentence"))
  /\ (cf.status # "ok" \/ ~NoDis \/ Cyc[g] \/ ~IsSentence \/ NTrees(C, w) = 1
        \/ Report("C04", "ambiguous_sentence_without_conflict"))
  /\ (cf.status # "err" \/ ~NoDis \/ ~LaContinues \/ Report("C01", "rejected_viable_continuation"))
  /\ (cf.status \notin {"abort", "hang"} \/ Report("C15", cf.status))
  /\ (~Replay \/ cf.status = "run"
        \/ PrintT(<<"REPLAY", ToJson([id |-> Dumps[g].id, g |-> g, w |-> w, la |-> la,
                                       status |-> cf.status])>>))
=============================================================================
