CONSTANT MaxCalls = 4
INIT Init
NEXT Next
INVARIANT Consistent
INVARIANT LRHasGrammarOrder
INVARIANT GlrTable
CHECK_DEADLOCK FALSE
