------------------------------ MODULE Automaton ----------------------------
(***************************************************************************)
(* OPERATIONAL: construction of the LR automaton as in                     *)
(* rustemo-compiler/src/table/mod.rs (calc_states, closure, merge_state,   *)
(* propagate_follows), the candidates of every action cell                 *)
(* (calculate_reductions with nothing resolved) and the right-nulled       *)
(* lengths.                                                                *)
(*                                                                         *)
(* A state is [sym, items, trans] with items a SEQUENCE of [p, d, la]      *)
(* (kernel items first, then closure items in the order the code adds      *)
(* them: per closure round in production order) and trans a set of         *)
(* <<symbol, target>>.  State indices are creation order (0-based in the   *)
(* dump = position - 1 here).                                              *)
(*                                                                         *)
(* The work list is FIFO in the code.  PopOrder = "fifo" reproduces the    *)
(* code exactly (and is compared with the dumped table state by state);    *)
(* PopOrder = "any" lets TLC pick any queued state, which shows that the   *)
(* C04 verdict does not depend on the processing order.                    *)
(***************************************************************************)
EXTENDS CanonLR1

\* LRItem::is_kernel (the AUGL root item, production 1 with the dot at 0, is NOT kernel)
IsKernelItem(it) == it.d > 0 \/ it.p = 0
ItemKey(it) == <<it.p, it.d>>

\* ---- closure (LRState::closure): rounds until nothing changes ------------
\* new items of one round: for every item with a nonterminal B after the dot, every
\* production of B with lookahead FIRST(rest) (plus the item's own lookahead if the
\* rest is nullable); collected in a set ordered by production, merged into the items
ClosureRound(C, items) ==
  LET G == C.G
      contrib(it) ==
        LET B == IF it.d < RhsLen(G, it.p) THEN RhsAt(G, it.p, it.d) ELSE -1
        IN IF B < 0 \/ IsTerm(G, B) THEN {}
           ELSE LET tail == SubSeq(Rhs(G, it.p), it.d + 2, RhsLen(G, it.p))
                    fl == FirstSeqF(C.N, C.F, tail) \cup (IF NullableSeq(C.N, tail) THEN it.la ELSE {})
                IN {<<q, fl>> : q \in ProdsOf(G, B)}
      all == UNION {contrib(items[i]) : i \in 1 .. Len(items)}
      prods == {x[1] : x \in all}
      laOf(q) == UNION {x[2] : x \in {y \in all : y[1] = q}}
      \* update existing items, then append the new ones in production order
      upd == [i \in 1 .. Len(items) |->
                IF items[i].d = 0 /\ items[i].p \in prods
                THEN [items[i] EXCEPT !.la = @ \cup laOf(items[i].p)] ELSE items[i]]
      have == {items[i].p : i \in {j \in 1 .. Len(items) : items[j].d = 0}}
      RECURSIVE Add(_, _)
      Add(S, acc) == IF S = {} THEN acc
                     ELSE LET q == Min(S) IN Add(S \ {q}, Append(acc, [p |-> q, d |-> 0, la |-> laOf(q)]))
  IN Add(prods \ have, upd)

RECURSIVE CloseItems(_, _)
CloseItems(C, items) ==
  LET n == ClosureRound(C, items) IN IF n = items THEN items ELSE CloseItems(C, n)

\* ---- successors (group_per_next_symbol + create_new_states) ---------------
NextSyms(G, items) == {RhsAt(G, items[i].p, items[i].d) : i \in {j \in 1 .. Len(items) : items[j].d < RhsLen(G, items[j].p)}}
KernelFor(G, items, X) ==
  LET idx == SelectSeq([i \in 1 .. Len(items) |-> i],
                       LAMBDA i : items[i].d < RhsLen(G, items[i].p) /\ RhsAt(G, items[i].p, items[i].d) = X)
  IN [k \in 1 .. Len(idx) |-> [p |-> items[idx[k]].p, d |-> items[idx[k]].d + 1, la |-> items[idx[k]].la]]

KernelSeq(items) == SelectSeq(items, IsKernelItem)
SameKernel(a, b) == [i \in 1 .. Len(KernelSeq(a)) |-> ItemKey(KernelSeq(a)[i])]
                    = [i \in 1 .. Len(KernelSeq(b)) |-> ItemKey(KernelSeq(b)[i])]

\* reducing items: complete, or (LALR_RN) dot at or after the right-nulled length
RnLen(C, p) == LET G == C.G
                   S == {k \in 0 .. RhsLen(G, p) : NullableFrom(G, C.N, p, k)}
               IN Min(S)
IsReducing(C, type, it) == it.d = RhsLen(C.G, it.p) \/ (type = "rn" /\ it.d >= RnLen(C, it.p))

\* merge_state: Menhir/Pager weak compatibility on the lookaheads known NOW
MergeOK(C, type, old, new) ==
  LET ko == KernelSeq(old)
      kn == KernelSeq(new)
  IN \/ type = "lalr"
     \/ \A i \in 1 .. Len(ko) : ~IsReducing(C, type, ko[i]) \/
          \A j \in 1 .. Len(ko) : i = j \/
             \A t \in (ko[i].la \cap kn[j].la) \cup (ko[j].la \cap kn[i].la) :
                t \in ko[i].la \cap ko[j].la \/ t \in kn[i].la \cap kn[j].la

MergeInto(old, new) ==
  LET kn == KernelSeq(new)
      pos(i) == Cardinality({j \in 1 .. i : IsKernelItem(old[j])})
  IN [i \in 1 .. Len(old) |-> IF IsKernelItem(old[i]) THEN [old[i] EXCEPT !.la = @ \cup kn[pos(i)].la] ELSE old[i]]

\* ---- processing one state popped from the queue ----------------------------
\* A = [states, queue]; returns A after closing state s and linking its successors
ProcessState(C, type, A, s) ==
  LET G == C.G
      closed == CloseItems(C, A.states[s].items)
      A0 == [A EXCEPT !.states[s].items = closed]
      syms == NextSyms(G, closed)
      RECURSIVE Each(_, _)
      Each(S, B) ==
        IF S = {} THEN B
        ELSE LET X == Min(S)
                 \* create_new_states runs once, before any merge of this loop
                 kern == KernelFor(G, closed, X)
                 \* the code searches the processed states, then the queued ones (both in
                 \* creation order) and the state being processed LAST
                 cands == {j \in 1 .. Len(B.states) : SameKernel(B.states[j].items, kern)
                                                       /\ MergeOK(C, type, B.states[j].items, kern)}
             IN IF cands # {}
                THEN LET j == IF cands \ {s} # {} THEN Min(cands \ {s}) ELSE s
                     IN Each(S \ {X}, [B EXCEPT !.states[j].items = MergeInto(@, kern),
                                                !.states[s].trans = @ \cup {<<X, j>>}])
                ELSE LET j == Len(B.states) + 1
                     IN Each(S \ {X}, [B EXCEPT !.states = Append(@, [sym |-> X, items |-> kern, trans |-> {}]),
                                                !.queue = Append(@, j),
                                                !.states[s].trans = @ \cup {<<X, j>>}])
  IN Each(syms, A0)

\* ---- propagate_follows: one round ------------------------------------------
PropagateRound(C, states) ==
  LET G == C.G
      st1 == [s \in 1 .. Len(states) |-> [states[s] EXCEPT !.items = CloseItems(C, @)]]
      incoming(t, it) ==
        UNION {UNION {st1[s].items[i].la : i \in {k \in 1 .. Len(st1[s].items) :
                                                    st1[s].items[k].p = it.p /\ st1[s].items[k].d = it.d - 1}}
               : s \in {x \in 1 .. Len(st1) : \E tr \in st1[x].trans : tr[2] = t}}
  IN [t \in 1 .. Len(st1) |->
        [st1[t] EXCEPT !.items = [i \in 1 .. Len(@) |->
             IF IsKernelItem(@[i]) /\ @[i].d > 0 THEN [@[i] EXCEPT !.la = @ \cup incoming(t, st1[t].items[i])] ELSE @[i]]]]

RECURSIVE Propagate(_, _)
Propagate(C, states) ==
  LET n == PropagateRound(C, states) IN IF n = states THEN states ELSE Propagate(C, n)

\* ---- the whole construction with the code's FIFO order ---------------------
RECURSIVE Drain(_, _, _)
Drain(C, type, A) ==
  IF A.queue = <<>> THEN A
  ELSE Drain(C, type, ProcessState(C, type, [A EXCEPT !.queue = Tail(@)], Head(A.queue)))

RootState(C, root) ==
  [sym |-> Lhs(C.G, root), items |-> <<[p |-> root, d |-> 0, la |-> {C.G.stop}]>>, trans |-> {}]

\* roots: <<0>> or <<0, 1>> (AUG, AUGL); the layout automaton is built after the main one
RECURSIVE BuildFrom(_, _, _, _, _)
BuildFrom(C, type, roots, k, A) ==
  IF k > Len(roots) THEN A
  ELSE LET A1 == [states |-> Append(A.states, RootState(C, roots[k])), queue |-> <<Len(A.states) + 1>>]
       IN BuildFrom(C, type, roots, k + 1, Drain(C, type, A1))

Build(C, type, roots) == Propagate(C, BuildFrom(C, type, roots, 1, [states |-> <<>>, queue |-> <<>>]).states)

\* ---- as a table record (the shape of the hook's raw dump) ------------------
ActionCands(C, type, states, s, t) ==
  LET G == C.G
      sh == {tr[2] : tr \in {x \in states[s].trans : x[1] = t}}
      acc == t = G.stop /\ \E i \in 1 .. Len(states[s].items) :
                LET it == states[s].items[i] IN it.d = RhsLen(G, it.p) /\ (Lhs(G, it.p) = G.aug \/ Lhs(G, it.p) = G.augl)
      reds == {<<states[s].items[i].p, states[s].items[i].d>> :
                 i \in {k \in 1 .. Len(states[s].items) :
                          LET it == states[s].items[k]
                          IN IsReducing(C, type, it) /\ t \in it.la /\ Lhs(G, it.p) # G.aug /\ Lhs(G, it.p) # G.augl}}
  IN [shift |-> IF sh = {} THEN -1 ELSE (CHOOSE x \in sh : TRUE) - 1, accept |-> acc, reds |-> reds]

\* comparison with a dumped raw table: the set of differences (empty = the operational
\* model reproduces the real construction exactly, state by state)
DiffWithDump(C, type, states, T) ==
  IF Len(states) # NStates(T) THEN {<<"state_count", Len(states), NStates(T)>>}
  ELSE UNION {
    LET q == s - 1
        its == states[s].items
        dit == T.states[s].items
    IN (IF states[s].sym = T.states[s].sym THEN {} ELSE {<<"symbol", q>>})
       \cup (IF [i \in 1 .. Len(its) |-> <<its[i].p, its[i].d>>] = [i \in 1 .. Len(dit) |-> <<dit[i].p, dit[i].d>>]
             THEN {} ELSE {<<"item_order", q>>})
       \cup (IF Len(its) = Len(dit) /\ \A i \in 1 .. Len(its) : its[i].la = Range(dit[i].la) THEN {}
             ELSE {<<"lookaheads", q>>})
       \cup {<<"transition", q, X>> :
               X \in {Y \in Symbols(C.G) :
                        (IF \E tr \in states[s].trans : tr[1] = Y
                         THEN (CHOOSE tr \in states[s].trans : tr[1] = Y)[2] - 1 ELSE -1) # TTrans(T, q, Y)}}
       \cup {<<"cell", q, t>> :
               t \in {u \in Terms(C.G) :
                        LET c == ActionCands(C, type, states, s, u)
                        IN ~(c.shift = TShift(T, q, u) /\ c.accept = TAccepts(T, q, u) /\ c.reds = TReduces(T, q, u))}}
    : s \in 1 .. Len(states)}
=============================================================================
