------------------------------ MODULE TreeMon ------------------------------
(***************************************************************************)
(* PROPERTY MONITORS over recorded executions (trees, events, results) of  *)
(* the real runtime.  Each monitor is the TLA+ formalisation of one        *)
(* property statement and does not depend on the operational modules.      *)
(* A monitor returns a set of named discrepancies; empty = holds.          *)
(*                                                                         *)
(* Recorded tree node: [k, t, p, n, s, e, sl, sc, el, ec, v, hl, lay, c]   *)
(* k = "t" leaf / "n" interior; byte offsets s,e; lines/cols; v = token    *)
(* bytes; hl/lay = layout stored before the node; c = children.            *)
(***************************************************************************)
EXTENDS Table

RECURSIVE NLeaves(_)
NLeaves(n) == IF n.k = "t" THEN 1
              ELSE LET RECURSIVE S(_)
                       S(i) == IF i > Len(n.c) THEN 0 ELSE NLeaves(n.c[i]) + S(i + 1)
                   IN S(1)

(* ---- Pos: byte offset <-> (line, column) ------------------------------- *)
NewlinesBefore(bytes, off) == Cardinality({i \in 1 .. off : bytes[i] = 10})
LineStart(bytes, off) ==
  LET nl == {i \in 1 .. off : bytes[i] = 10}
  IN IF nl = {} THEN 0 ELSE CHOOSE i \in nl : \A j \in nl : j <= i
PosOK(bytes, off, line, col) ==
  /\ off >= 0 /\ off <= Len(bytes)
  /\ line = 1 + NewlinesBefore(bytes, off)
  /\ col = off - LineStart(bytes, off)

\* bytes that occur in the UTF-8 encodings of the white space the generators use
\* (ASCII blanks, U+00A0, U+2003, U+2028, U+3000)
IsWsByte(b) == b \in {32, 9, 10, 13, 11, 12, 194, 160, 226, 128, 131, 168, 227}

(* ---- C13 on a tree ------------------------------------------------------ *)
\* leaves: sequence of leaf records of the whole tree; k: number of leaves before n
RECURSIVE SpanDefects(_, _, _, _)
SpanDefects(bytes, leaves, n, k) ==
  LET pos == (IF PosOK(bytes, n.s, n.sl, n.sc) THEN {} ELSE {<<"start_linecol", n.s, n.sl, n.sc>>})
             \cup (IF PosOK(bytes, n.e, n.el, n.ec) THEN {} ELSE {<<"end_linecol", n.e, n.el, n.ec>>})
  IN IF n.k = "t"
     THEN pos
          \cup (IF n.s <= n.e /\ n.e <= Len(bytes) /\ n.v = SubSeq(bytes, n.s + 1, n.e)
                THEN {} ELSE {<<"token_value_not_slice", n.t, n.s, n.e>>})
          \cup (IF k = 0 \/ leaves[k].e <= n.s THEN {} ELSE {<<"token_overlap", n.s>>})
     ELSE LET RECURSIVE Kids(_, _)
              Kids(i, kk) == IF i > Len(n.c) THEN {}
                             ELSE SpanDefects(bytes, leaves, n.c[i], kk) \cup Kids(i + 1, kk + NLeaves(n.c[i]))
              own == IF Len(n.c) = 0
                     THEN LET prevEnd == IF k = 0 THEN 0 ELSE leaves[k].e
                              nextStart == IF k < Len(leaves) THEN leaves[k + 1].s ELSE Len(bytes)
                          IN IF n.s = n.e /\ prevEnd <= n.s /\ n.s <= nextStart THEN {}
                             ELSE {<<"empty_span", n.p, n.s, n.e, prevEnd, nextStart>>}
                     ELSE IF n.s = n.c[1].s /\ n.e = n.c[Len(n.c)].e THEN {}
                          ELSE LET lo == IF n.s < n.c[1].s THEN n.s ELSE n.c[1].s
                                   hi == IF n.s < n.c[1].s THEN n.c[1].s ELSE n.s
                               IN \* classified separately: only the start differs and only by layout
                                  IF n.e = n.c[Len(n.c)].e /\ lo >= 0 /\ hi <= Len(bytes)
                                     /\ (\/ \A i \in (lo + 1) .. hi : IsWsByte(bytes[i])
                                         \* Layout rule (comments): the gap holds no token of the tree
                                         \/ \A j \in 1 .. Len(leaves) : leaves[j].e <= lo \/ leaves[j].s >= hi)
                                  THEN {<<"nonterm_start_differs_by_layout", n.p, n.s, n.e, n.c[1].s>>}
                                  ELSE {<<"nonterm_span", n.p, n.s, n.e, n.c[1].s, n.c[Len(n.c)].e>>}
          IN pos \cup own \cup Kids(1, k)

C13Tree(bytes, tree) == SpanDefects(bytes, Leaves(tree), tree, 0)

\* ... and, under white-space skipping, what lies between two consecutive tokens of a tree is
\* white space: a tree whose tokens skip other text does not locate its nodes in the input
GapDefects(bytes, tree) ==
  LET l == Leaves(tree)
  IN {<<"text_skipped_between_tokens", l[k].e, l[k + 1].s>> :
        k \in {j \in 1 .. (Len(l) - 1) :
                 l[j].e <= l[j + 1].s /\ l[j + 1].s <= Len(bytes)
                 /\ \E i \in (l[j].e + 1) .. l[j + 1].s : ~IsWsByte(bytes[i])}}
C13TreeWs(bytes, tree, ws) == C13Tree(bytes, tree) \cup (IF ws THEN GapDefects(bytes, tree) ELSE {})

(* ---- C14: losslessness of the generic tree ------------------------------ *)
RECURSIVE FlatCat(_)
FlatCat(seqs) == IF seqs = <<>> THEN <<>> ELSE Head(seqs) \o FlatCat(Tail(seqs))

IsWs(b) == IsWsByte(b)
Reconstruct(tree) ==
  LET l == Leaves(tree) IN FlatCat([i \in 1 .. Len(l) |-> l[i].lay \o l[i].v])

\* consumed = the whole input for a full parse; the reconstruction must be a
\* prefix of it and what remains must be layout (trailing layout before the end).
C14Tree(bytes, tree, wsLayout) ==
  LET r == Reconstruct(tree)
      l == Leaves(tree)
  IN (IF Len(r) <= Len(bytes) /\ SubSeq(bytes, 1, Len(r)) = r THEN {}
      ELSE {<<"reconstruction_not_prefix", Len(r)>>})
     \cup (IF wsLayout /\ Len(r) <= Len(bytes)
              /\ \E i \in (Len(r) + 1) .. Len(bytes) : ~IsWs(bytes[i])
           THEN {<<"trailing_not_layout", Len(r)>>} ELSE {})
     \cup (IF wsLayout
           THEN {<<"layout_not_whitespace", i>> :
                    i \in {j \in 1 .. Len(l) : \E b \in Range(l[j].lay) : ~IsWs(b)}}
           ELSE {})

(* ---- layout twins ----------------------------------------------------------- *)
\* shape without offsets: what "the same tree" means for two renderings of one token string
RECURSIVE ShapeK(_)
ShapeK(n) ==
  IF n.k = "t" THEN <<"t", n.t>>
  ELSE LET ch == [i \in 1 .. Len(n.c) |-> ShapeK(n.c[i])]
           RECURSIVE Trim(_)
           Trim(x) == IF x # <<>> /\ x[Len(x)][1] = "n" /\ x[Len(x)][4] = 0
                      THEN Trim(SubSeq(x, 1, Len(x) - 1)) ELSE x
           RECURSIVE YLen(_)
           YLen(i) == IF i > Len(ch) THEN 0 ELSE (IF ch[i][1] = "t" THEN 1 ELSE ch[i][4]) + YLen(i + 1)
       IN <<"n", n.p, Trim(ch), YLen(1)>>


(* ---- C02: the tree is a derivation of the lexemes ----------------------- *)
\* lex: the harness's own lexeme list [[off, len, kind]...] the input was built from
LexKinds(lex) == [i \in 1 .. Len(lex) |-> lex[i][3]]
C02Tree(C, tree, lex, consumed) ==
  LET w == SubSeq(LexKinds(lex), 1, consumed)
      l == Leaves(tree)
  IN (IF IsDerivation(C, tree, w, FALSE) THEN {} ELSE {<<"not_a_derivation">>})
     \cup (IF Len(l) = consumed /\ \A i \in 1 .. Len(l) : l[i].s = lex[i][1] /\ l[i].e = lex[i][1] + lex[i][2]
           THEN {} ELSE {<<"leaves_are_not_the_tokens", Len(l), consumed>>})
=============================================================================
