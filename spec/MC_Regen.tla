------------------------------- MODULE MC_Regen ----------------------------
(***************************************************************************)
(* Small-scope exhaustive check of Regen: for a required list with a type  *)
(* group (enum E + struct Add owned by E), an independent type and two     *)
(* actions, every history of at most MaxOps user operations (delete any    *)
(* item, rewrite any body, add a user item, regenerate) keeps RegenOK for  *)
(* every regeneration, never produces duplicates and is idempotent.        *)
(***************************************************************************)
EXTENDS Regen, TLC
CONSTANT MaxOps
VARIABLES file, ops, lastDefects

Required == << <<"use", "", "u">>, <<"type", "Num", "t0">>, <<"fn", "num", "f0">>,
               <<"type", "E", "t1">>, <<"type", "Add", "t2">>, <<"fn", "e_add", "f1">>, <<"fn", "e_num", "f2">> >>
Group == <<"", "", "", "E", "E", "", "">>

Init == file = Required /\ ops = 0 /\ lastDefects = {}
Delete(i) == file' = SubSeq(file, 1, i - 1) \o SubSeq(file, i + 1, Len(file))
Edit(i) == file[i][1] = "fn" /\ file' = [file EXCEPT ![i] = <<file[i][1], file[i][2], "edited">>]
AddUser == <<"fn", "user">> \notin Keys(file) /\ file' = Append(file, <<"fn", "user", "x">>)
Regen == file' = Generate(file, Required) /\ lastDefects' = RegenDefects(file, file', Required)
Next ==
  /\ ops < MaxOps
  /\ ops' = ops + 1
  /\ \/ Regen
     \/ /\ UNCHANGED lastDefects
        /\ \/ \E i \in 1 .. Len(file) : Delete(i) \/ Edit(i)
           \/ AddUser
Holds == lastDefects = {}
NoDup == NoDuplicates(file)
Idempotent == Generate(Generate(file, Required), Required) = Generate(file, Required)
\* the behaviour before the repair (shows the model bites, see MC_Regen_asfound.cfg)
AsFoundHolds == RegenDefects(file, AppendMissingAsFound(file, Required, Group, 1), Required) = {}
=============================================================================
