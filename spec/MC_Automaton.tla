----------------------------- MODULE MC_Automaton --------------------------
(***************************************************************************)
(* MODEL CHECKING the operational construction (Automaton.tla) for the     *)
(* grammars of DUMPS (only their grammar part is used) with the work list  *)
(* popped in ANY order: every reachable final automaton must be a faithful *)
(* compression of canonical LR(1) (CanonLR1.Discrepancies = {}), for the   *)
(* three table types.  This is the design-level half of C04: the verdict   *)
(* does not depend on the processing order, which is what lets a benign    *)
(* re-ordering of the work list in the code pass the checks.               *)
(***************************************************************************)
EXTENDS Automaton, TLC, Json, IOUtils

Dumps == ndJsonDeserialize(IOEnv.DUMPS)
Ctxs  == [i \in 1 .. Len(Dumps) |-> Ctx(Dumps[i].t)]
MaxStates == atoi(IOEnv.MAXSTATES)

VARIABLES gi, A, phase
vars == <<gi, A, phase>>
C == Ctxs[gi]
Type == Dumps[gi].cfg.tt

Init ==
  /\ gi \in {i \in 1 .. Len(Dumps) : Dumps[i].t.augl < 0 /\ NStates(Dumps[i].t) <= MaxStates}
  /\ A = [states |-> <<RootState(Ctxs[gi], 0)>>, queue |-> <<1>>]
  /\ phase = "build"

RECURSIVE SeqOfSet(_)
SeqOfSet(S) == IF S = {} THEN <<>> ELSE LET x == CHOOSE y \in S : TRUE IN <<x>> \o SeqOfSet(S \ {x})

Remove(q, s) == SelectSeq(q, LAMBDA x : x # s)

Next ==
  \/ /\ phase = "build" /\ A.queue # <<>>
     /\ \E s \in Range(A.queue) : A' = ProcessState(C, Type, [A EXCEPT !.queue = Remove(@, s)], s)
     /\ UNCHANGED <<gi, phase>>
  \/ /\ phase = "build" /\ A.queue = <<>>
     /\ A' = [A EXCEPT !.states = Propagate(C, @)]
     /\ phase' = "done"
     /\ UNCHANGED gi

\* the model's automaton in the shape of a dumped table
AsTable ==
  LET G == C.G
      sts == A.states
      item(it) == [p |-> it.p, d |-> it.d, la |-> SeqOfSet(it.la), k |-> IsKernelItem(it), red |-> IsReducing(C, Type, it)]
      cell(s, t) == LET c == ActionCands(C, Type, sts, s, t)
                    IN (IF c.shift >= 0 THEN <<[k |-> "s", s |-> c.shift, p |-> -1, n |-> -1]>> ELSE <<>>)
                       \o (IF c.accept THEN <<[k |-> "a", s |-> -1, p |-> -1, n |-> -1]>> ELSE <<>>)
                       \o [j \in 1 .. Cardinality(c.reds) |->
                             LET r == SeqOfSet(c.reds)[j] IN [k |-> "r", s |-> -1, p |-> r[1], n |-> r[2]]]
      goto(s, Aa) == IF \E tr \in sts[s].trans : tr[1] = Aa
                     THEN (CHOOSE tr \in sts[s].trans : tr[1] = Aa)[2] - 1 ELSE -1
  IN [x \in (DOMAIN G) \ {"states", "layout_state"} |-> G[x]] @@
     [layout_state |-> -1,
      states |-> [s \in 1 .. Len(sts) |->
                    [sym |-> sts[s].sym,
                     items |-> [i \in 1 .. Len(sts[s].items) |-> item(sts[s].items[i])],
                     actions |-> [t \in 1 .. G.nterm |-> cell(s, t - 1)],
                     gotos |-> [n \in 1 .. (G.nsym - G.nterm) |-> goto(s, G.nterm + n - 1)]]]]

Faithful ==
  phase # "done" \/
  LET D == Discrepancies(AsTable, C, Type)
  IN D = {} \/ PrintT(<<"VERDICT", ToJson([prop |-> "C04", what |-> "model_automaton_not_faithful", id |-> Dumps[gi].id,
                                           g |-> gi, tt |-> Type, w |-> <<>>, la |-> -1, status |-> D])>>)
=============================================================================
