---------------------------- MODULE CheckSettings --------------------------
(* I -> S: Settings call sequences performed on the real API (vhist api-seq, *)
(* fresh process each) and what the generated parser shows, compared with     *)
(* Settings.Configure / Observable (a difference is a DIVERGENCE).            *)
EXTENDS Settings, TLC, Json, IOUtils
Recs == ndJsonDeserialize(IOEnv.RECS)
VARIABLE i
Verdict(r) ==
  LET calls == [k \in 1 .. Len(r.calls) |-> <<r.calls[k][1], r.calls[k][2]>>]
      s == Configure(calls)
      want == Observable(s, r.has_layout)
  IN [id |-> r.id,
      div |-> IF s.abort THEN (IF r.outcome = "panic" THEN {} ELSE {<<"documented_misuse_did_not_abort", r.outcome>>})
              ELSE IF r.outcome = "err" THEN {}     \* the grammar does not compile under these settings (e.g. LR + LALR_RN)
              ELSE IF r.outcome # "ok" THEN {<<"configuration_failed", r.outcome>>}
              ELSE {<<f, r.obs[f], want[f]>> : f \in {x \in DOMAIN want : r.obs[x] # want[x]}}]
Init == i = 0
Next == /\ i < Len(Recs)
        /\ i' = i + 1
        /\ PrintT(<<"VERDICT", ToJson(Verdict(Recs[i + 1]))>>)
=============================================================================
