------------------------------ MODULE Earley -------------------------------
(***************************************************************************)
(* ORACLE: language membership and viable prefixes by Earley recognition,  *)
(* for every context-free grammar (nullable, left/right/hidden recursive,  *)
(* cyclic).  Independent of the LR machinery.                              *)
(*                                                                         *)
(* C is Grammar!Ctx(G); w a sequence of terminal indices (no STOP); root   *)
(* the production the parse starts from (0 = AUG: start; the AUGL          *)
(* production for layout).  Only productive productions are predicted, so  *)
(* a non-empty set k means w[1..k] is a viable prefix.                     *)
(***************************************************************************)
EXTENDS Grammar

\* item = <<production, dot, origin>>
NextSym(G, it) == IF it[2] < RhsLen(G, it[1]) THEN RhsAt(G, it[1], it[2]) ELSE -1

RECURSIVE EClose(_, _, _, _)
EClose(C, S, k, cur) ==
  LET G    == C.G
      want == {NextSym(G, it) : it \in cur}
      pred == {<<p, 0, k>> : p \in {q \in C.PP : Lhs(G, q) \in want}}
      done == {it \in cur : it[2] = RhsLen(G, it[1])}
      comp == UNION {LET A   == Lhs(G, it[1])
                         src == IF it[3] = k THEN cur ELSE S[it[3] + 1]
                     IN {<<jt[1], jt[2] + 1, jt[3]>> : jt \in {x \in src : NextSym(G, x) = A}}
                     : it \in done}
      new  == cur \cup pred \cup comp
  IN IF new = cur THEN cur ELSE EClose(C, S, k, new)

\* t < 0 stands for a lexeme no terminal matches (never scanned)
Scan(G, set, t) ==
  IF t < 0 THEN {} ELSE {<<it[1], it[2] + 1, it[3]>> : it \in {x \in set : NextSym(G, x) = t}}

\* S holds the sets for positions 0..k; stops early at the first empty set.
RECURSIVE ERun(_, _, _, _)
ERun(C, w, k, S) ==
  IF k = Len(w) THEN S
  ELSE LET sc == Scan(C.G, S[k + 1], w[k + 1])
       IN IF sc = {} THEN S
          ELSE ERun(C, w, k + 1, Append(S, EClose(C, S, k + 1, sc)))

Chart(C, w, root) ==
  IF root \in C.PP THEN ERun(C, w, 0, <<EClose(C, <<>>, 0, {<<root, 0, 0>>})>>) ELSE <<{}>>

\* number of leading tokens of w that form a viable prefix
ViableLen(C, w, root) == Len(Chart(C, w, root)) - 1

Accepts(C, ch, w, root) ==
  Len(ch) = Len(w) + 1 /\ <<root, RhsLen(C.G, root), 0>> \in ch[Len(w) + 1]

Sentence(C, w, root) == Accepts(C, Chart(C, w, root), w, root)

\* terminals that can follow the viable prefix w (complete chart required)
NextTerminals(C, ch) == {NextSym(C.G, it) : it \in ch[Len(ch)]} \cap Terms(C.G)

\* can the input end after w ?
CanEnd(C, ch, w, root) == Accepts(C, ch, w, root)

(* ---- recognition over a token lattice ------------------------------------ *)
\* lat = [start, end, edges]; nodes are integers start..end, edges <<i, t, j>> with i < j.
\* S is a sequence indexed by node + 1 (sets of nodes not reached stay empty).
RECURSIVE ELat(_, _, _, _, _)
ELat(C, lat, root, k, S) ==
  IF k > lat.end THEN S
  ELSE LET cur0 == S[k + 1] \cup (IF k = lat.start /\ root \in C.PP THEN {<<root, 0, k>>} ELSE {})
       IN IF cur0 = {} THEN ELat(C, lat, root, k + 1, S)
          ELSE LET closed == EClose(C, S, k, cur0)
                   out == {e \in lat.edges : e[1] = k}
                   S1 == [n \in 1 .. Len(S) |->
                            IF n = k + 1 THEN closed
                            ELSE S[n] \cup UNION {Scan(C.G, closed, e[2]) : e \in {x \in out : x[3] + 1 = n}}]
               IN ELat(C, lat, root, k + 1, S1)

ChartLat(C, lat, root) == ELat(C, lat, root, lat.start, [n \in 1 .. (lat.end + 1) |-> {}])
SentenceLat(C, lat, root) ==
  lat.start <= lat.end /\ <<root, RhsLen(C.G, root), lat.start>> \in ChartLat(C, lat, root)[lat.end + 1]

\* the longest prefix lengths k such that w[1..k] is a sentence (for partial parse)
SentencePrefixes(C, w, root) ==
  LET ch == Chart(C, w, root)
  IN {k \in 0 .. (Len(ch) - 1) : <<root, RhsLen(C.G, root), 0>> \in ch[k + 1]}
=============================================================================
