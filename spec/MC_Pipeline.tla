----------------------------- MODULE MC_Pipeline ---------------------------
(* Design-level check of Pipeline: every combination of document attributes, *)
(* algorithm and lexer kind ends in "ok" or a diagnostic; a single injected  *)
(* defect yields exactly its documented class.                               *)
EXTENDS Pipeline, TLC
VARIABLES doc, algo, lexer
DocSpace == [syntax : BOOLEAN, idents : BOOLEAN, terminals : BOOLEAN, symbols : BOOLEAN,
             selfrec : BOOLEAN, recognizers : BOOLEAN, productive : BOOLEAN, conflicts : BOOLEAN]
Init == doc \in DocSpace /\ algo \in {"lr", "glr"} /\ lexer \in {"default", "custom"}
Next == UNCHANGED <<doc, algo, lexer>>
Fine == [syntax |-> TRUE, idents |-> TRUE, terminals |-> TRUE, symbols |-> TRUE, selfrec |-> TRUE,
         recognizers |-> TRUE, productive |-> TRUE, conflicts |-> TRUE]
Class(f) == CASE f = "syntax" -> "syntax" [] f = "idents" -> "identifier" [] f = "terminals" -> "undef_terminal"
              [] f = "symbols" -> "undef_symbol" [] f = "selfrec" -> "recursion" [] f = "recognizers" -> "recognizer"
              [] f = "productive" -> "recursion" [] OTHER -> "conflicts"
Total == Predict(doc, algo, lexer).outcome \in {"ok", "err"}
Single ==
  \A f \in DOMAIN Fine :
     doc = [Fine EXCEPT ![f] = FALSE] =>
        LET r == Predict(doc, algo, lexer)
        IN IF (f = "conflicts" /\ algo = "glr") \/ (f = "recognizers" /\ lexer = "custom")
           THEN r.outcome = "ok" ELSE r.outcome = "err" /\ r.class = Class(f)
=============================================================================
