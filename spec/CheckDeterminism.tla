-------------------------- MODULE CheckDeterminism -------------------------
(* C17 (I -> S): compile events recorded from fresh processes (library API   *)
(* through vhist, the rcomp binary, directory processing in different        *)
(* orders) are checked against Determinism.Disagreements.                    *)
EXTENDS Determinism, TLC, Json, IOUtils
Events == ndJsonDeserialize(IOEnv.EVENTS)
VARIABLE i
Init == i = 0
Next == /\ i = 0 /\ i' = 1
        /\ LET D == Disagreements(Events)
               keys == {<<Events[k].g, Effective(Events[k].given)>> : k \in 1 .. Len(Events)}
           IN PrintT(<<"VERDICT", ToJson([n |-> Len(Events), nkeys |-> Cardinality(keys),
                        bad |-> {<<Events[p[1]].id, Events[p[2]].id, Events[p[1]].via, Events[p[2]].via>> : p \in D}])>>)
=============================================================================
