------------------------------ MODULE Grammar ------------------------------
(***************************************************************************)
(* Context-free grammars in the representation rustemo's compiler uses and *)
(* the dump hook writes: symbols are integers, terminals 0..nterm-1 with   *)
(* 0 = STOP, then the nonterminals (EMPTY, AUG, [AUGL], user rules).       *)
(* Production indices are 0-based as in the code; production 0 is          *)
(* AUG: start.  EMPTY never occurs in a right-hand side.                   *)
(*                                                                         *)
(* This module is an ORACLE module: declarative definitions (nullable,     *)
(* FIRST, productive, reachable, cyclic) as least fixpoints, independent   *)
(* of how table/mod.rs computes its first sets.                            *)
(***************************************************************************)
EXTENDS Integers, Sequences, FiniteSets

NProds(G)      == Len(G.prods)
ProdIdx(G)     == 0 .. (NProds(G) - 1)
Prod(G, p)     == G.prods[p + 1]
Lhs(G, p)      == G.prods[p + 1].lhs
Rhs(G, p)      == G.prods[p + 1].rhs
RhsLen(G, p)   == Len(G.prods[p + 1].rhs)
RhsAt(G, p, d) == G.prods[p + 1].rhs[d + 1]          \* symbol after a dot at d
IsTerm(G, s)   == s < G.nterm
IsNonTerm(G, s) == s >= G.nterm
Terms(G)       == 0 .. (G.nterm - 1)
NonTerms(G)    == G.nterm .. (G.nsym - 1)
Symbols(G)     == 0 .. (G.nsym - 1)
ProdsOf(G, A)  == {p \in ProdIdx(G) : Lhs(G, p) = A}
Range(s)       == {s[i] : i \in 1 .. Len(s)}

\* the dump itself is consistent: every index it mentions exists (a compiler with a defect
\* in its index bookkeeping can write a grammar that is not; the monitors say so and stop)
ConsistentG(G) ==
  /\ G.nsym = G.nterm + Len(G.nonterms)
  /\ Len(G.terms) = G.nterm
  /\ \A p \in ProdIdx(G) : /\ Lhs(G, p) \in NonTerms(G)
                           /\ \A i \in 1 .. RhsLen(G, p) : Rhs(G, p)[i] \in Symbols(G)
  /\ \A k \in 1 .. Len(G.nonterms) : \A j \in 1 .. Len(G.nonterms[k].prods) :
        /\ G.nonterms[k].prods[j] \in ProdIdx(G)
        /\ Lhs(G, G.nonterms[k].prods[j]) = G.nterm + k - 1
  /\ G.start \in NonTerms(G)

(* ---- nullable nonterminals: least N with A in N if some A -> X1..Xn has all Xi in N *)
RECURSIVE NullFix(_, _)
NullFix(G, N) ==
  LET N2 == N \cup {A \in NonTerms(G) :
                      \E p \in ProdsOf(G, A) : \A i \in 1 .. RhsLen(G, p) : Rhs(G, p)[i] \in N}
  IN IF N2 = N THEN N ELSE NullFix(G, N2)
Nullable(G) == NullFix(G, {})

NullableSeq(N, s) == \A i \in 1 .. Len(s) : s[i] \in N
NullableFrom(G, N, p, d) == \A i \in (d + 1) .. RhsLen(G, p) : Rhs(G, p)[i] \in N

(* ---- FIRST: terminals that can begin a string derived from a symbol ---------------- *)
FirstSeqF(N, F, s) ==
  UNION {F[s[i]] : i \in {j \in 1 .. Len(s) : \A k \in 1 .. (j - 1) : s[k] \in N}}

RECURSIVE FirstFix(_, _, _)
FirstFix(G, N, F) ==
  LET F2 == [s \in Symbols(G) |->
               IF IsTerm(G, s) THEN {s}
               ELSE F[s] \cup UNION {FirstSeqF(N, F, Rhs(G, p)) : p \in ProdsOf(G, s)}]
  IN IF F2 = F THEN F ELSE FirstFix(G, N, F2)
First(G, N) == FirstFix(G, N, [s \in Symbols(G) |-> IF IsTerm(G, s) THEN {s} ELSE {}])

(* FIRST of the sentential suffix  rhs(p)[d+1..]  followed by lookahead a            *)
FirstTail(G, N, F, p, d, a) ==
  LET tail == SubSeq(Rhs(G, p), d + 1, RhsLen(G, p))
  IN FirstSeqF(N, F, tail) \cup (IF NullableSeq(N, tail) THEN {a} ELSE {})

(* ---- productive symbols: derive some terminal string ------------------------------- *)
RECURSIVE ProdFix(_, _)
ProdFix(G, P) ==
  LET P2 == P \cup {A \in NonTerms(G) :
                      \E p \in ProdsOf(G, A) : \A i \in 1 .. RhsLen(G, p) :
                          IsTerm(G, Rhs(G, p)[i]) \/ Rhs(G, p)[i] \in P}
  IN IF P2 = P THEN P ELSE ProdFix(G, P2)
Productive(G) == ProdFix(G, {})
ProductiveProds(G, P) ==
  {p \in ProdIdx(G) : \A i \in 1 .. RhsLen(G, p) : IsTerm(G, Rhs(G, p)[i]) \/ Rhs(G, p)[i] \in P}

(* ---- reachable from a root production ---------------------------------------------- *)
RECURSIVE ReachFix(_, _)
ReachFix(G, R) ==
  LET R2 == R \cup UNION {Range(Rhs(G, p)) : p \in {q \in ProdIdx(G) : Lhs(G, q) \in R}}
  IN IF R2 = R THEN R ELSE ReachFix(G, R2)
Reachable(G, root) == ReachFix(G, {root})

(* ---- cyclic: A =>+ A.  A "unit-derives" B if A -> alpha B beta with alpha,beta nullable *)
UnitPairs(G, N) ==
  UNION {{<<Lhs(G, p), Rhs(G, p)[i]>> :
             i \in {j \in 1 .. RhsLen(G, p) :
                      /\ IsNonTerm(G, Rhs(G, p)[j])
                      /\ \A k \in 1 .. RhsLen(G, p) : k # j => Rhs(G, p)[k] \in N}}
         : p \in ProdIdx(G)}
RECURSIVE TCFix(_)
TCFix(R) ==
  LET R3 == R \cup UNION {{<<a[1], b[2]>> : b \in {c \in R : c[1] = a[2]}} : a \in R}
  IN IF R3 = R THEN R ELSE TCFix(R3)
Cyclic(G, N) == \E pr \in TCFix(UnitPairs(G, N)) : pr[1] = pr[2]

\* reduced: every nonterminal reachable from the start symbol derives a terminal string
Reduced(G, P) == \A A \in Reachable(G, G.start) : IsTerm(G, A) \/ A \in P

(* ---- everything the other oracle modules need, computed once per grammar ----------- *)
Ctx(G) ==
  LET N  == Nullable(G)
      P  == Productive(G)
  IN [G |-> G, N |-> N, F |-> First(G, N), P |-> P, PP |-> ProductiveProds(G, P)]
=============================================================================
