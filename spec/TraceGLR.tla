------------------------------ MODULE TraceGLR -----------------------------
(***************************************************************************)
(* TRACE VALIDATION of the real GlrParser (I -> S) and of LR/GLR agreement. *)
(*                                                                         *)
(* Each TRACES record holds, for one (grammar, input): the result and the  *)
(* forest of the real GLR parser over the real LALR_RN table (every tree   *)
(* serialised through Tree::build(TreeBuilder), solutions(), iteration     *)
(* count, out-of-range indexing) and, when the grammar also has an LR      *)
(* parser, the LR result and tree for the same input.  GSS internals are   *)
(* deliberately not logged: the observable is the forest, so a reordering  *)
(* of the reducer's work list cannot cause a rejection.  One TLC state per *)
(* record; the monitors are the statements of C03, C07, C12, C13, C15.     *)
(***************************************************************************)
EXTENDS TreeMon, GLRRuntime, TLC, Json, IOUtils

Dumps  == ndJsonDeserialize(IOEnv.DUMPS)
Traces == ndJsonDeserialize(IOEnv.TRACES)
Ctxs   == [g \in 1 .. Len(Dumps) |-> Ctx(Dumps[g].t)]
Cyc    == [g \in 1 .. Len(Dumps) |-> Cyclic(Dumps[g].t, Ctxs[g].N)]
EpsAmb == [g \in 1 .. Len(Dumps) |-> IF Cyc[g] THEN TRUE ELSE EpsAmbiguous(Ctxs[g])]

VARIABLE ci

\* shape with nonterminal spans (C07 compares productions, tokens and spans)
RECURSIVE ShapeS(_)
ShapeS(n) ==
  IF n.k = "t" THEN <<"t", n.t, n.s, n.e>>
  ELSE LET ch == [i \in 1 .. Len(n.c) |-> ShapeS(n.c[i])]
           RECURSIVE Trim(_)
           Trim(s) == IF s # <<>> /\ s[Len(s)][1] = "n" /\ s[Len(s)][6] = 0
                      THEN Trim(SubSeq(s, 1, Len(s) - 1)) ELSE s
           RECURSIVE YLen(_)
           YLen(i) == IF i > Len(ch) THEN 0 ELSE (IF ch[i][1] = "t" THEN 1 ELSE ch[i][6]) + YLen(i + 1)
       IN <<"n", n.p, n.s, n.e, Trim(ch), YLen(1)>>

AllLexed(r) == \A i \in 1 .. Len(r.lex) : r.lex[i][3] >= 0

\* lexically ambiguous input: the harness supplies the token lattice
\* r.lat = [start, end, edges = <<<<i, t, j>>, ...>>] (nodes: byte offsets after white space)
LatOf(r) == [start |-> r.lat.start, end |-> r.lat.end,
             edges |-> {<<r.lat.edges[k][1], r.lat.edges[k][2], r.lat.edges[k][3]>> : k \in 1 .. Len(r.lat.edges)}]
\* the leaves of a tree spell a path through the lattice
PathOK(lat, l) ==
  /\ IF Len(l) = 0 THEN lat.start = lat.end ELSE l[1].s = lat.start
  /\ \A k \in 1 .. Len(l) : <<l[k].s, l[k].t, IF k < Len(l) THEN l[k + 1].s ELSE lat.end>> \in lat.edges
IsDerivationLat(C, n, lat) ==
  /\ n.k = "n" /\ Lhs(C.G, n.p) = C.G.start
  /\ WellFormedTree(C, n, TRUE)
  /\ PathOK(lat, Leaves(n))

Monitors(r, b) ==
  LET g2 == r.g2
      T  == Dumps[g2].t
      C  == Ctxs[g2]
      w  == LexKinds(r.lex)
      meta == Dumps[g2].meta
      gok  == r.gres.k = "ok"
      islat == r.meta.lat
      lat  == IF islat THEN LatOf(r) ELSE [start |-> 0, end |-> 0, edges |-> {}]
      sent == IF islat THEN SentenceLat(C, lat, 0) ELSE AllLexed(r) /\ Sentence(C, w, 0)
      vl   == ViableLen(C, w, 0)
      f    == r.forest
      trees == f.trees
      inScope == meta.plain /\ ~Cyc[g2] /\ ~EpsAmb[g2]
      shapes == {Shape(trees[i]) : i \in 1 .. Len(trees)}
      nexp == IF ~(inScope /\ sent) THEN -1
              ELSE IF islat THEN NTreesLat(C, lat)
              \* the counting recursion is not memoised: its cost grows with the ambiguity,
              \* so it is used on short inputs with few solutions (MCI_GLR covers all short strings)
              ELSE IF Len(w) <= 6 /\ f.n <= 300 THEN NTrees(C, w) ELSE -1
      IsDer(t) == IF islat THEN IsDerivationLat(C, t, lat) ELSE IsDerivation(C, t, w, TRUE)
      c03 ==
        (IF gok /\ ~sent /\ ~r.partial THEN {<<"accepted_nonsentence">>} ELSE {})
        \cup (IF inScope /\ sent /\ ~gok /\ ~r.partial THEN {<<"rejected_sentence", r.gres.k>>} ELSE {})
        \cup (IF gok /\ ~r.partial
              THEN (IF \A i \in 1 .. Len(trees) : IsDer(trees[i]) THEN {}
                    ELSE {<<"tree_is_not_a_derivation", CHOOSE i \in 1 .. Len(trees) : ~IsDer(trees[i])>>})
                   \cup (IF Cyc[g2] \/ EpsAmb[g2] \/ Cardinality(shapes) = Len(trees) THEN {}
                         ELSE {<<"duplicate_tree", Len(trees), Cardinality(shapes)>>})
                   \cup (IF nexp < 0 \/ f.n = nexp THEN {} ELSE {<<"solutions_differ", f.n, nexp>>})
                   \cup (IF f.n >= 1 THEN {} ELSE {<<"ok_without_solution">>})
              ELSE {})
        \cup (IF gok
              THEN (IF (f.complete => f.iter = f.n) /\ f.iter_same THEN {} ELSE {<<"iteration_differs", f.iter, f.n>>})
                   \cup (IF f.oob = <<FALSE, FALSE>> THEN {} ELSE {<<"index_beyond_solutions_yields_tree">>})
                   \cup (IF f.complete => Len(trees) = f.n THEN {} ELSE {<<"missing_tree_for_index">>})
                   \cup (IF \A i \in 1 .. Len(trees) : trees[i].k = "n" THEN {} ELSE {<<"index_yields_no_tree">>})
              ELSE {})
      \* C07: LR and GLR agree on deterministic grammars
      lrran == r.g > 0 /\ r.g # r.g2 /\ r.res.k # "none"
      lok == r.res.k = "ok"
      c07all == IF ~lrran \/ ~meta.nodis THEN {}
             ELSE (IF lok = gok THEN {} ELSE {<<"lr_glr_disagree", r.res.k, r.gres.k>>})
                  \cup (IF lok /\ gok
                        THEN (IF f.n = 1 THEN {} ELSE {<<"solutions_not_one", f.n>>})
                             \cup (IF Len(trees) >= 1 /\ ShapeS(trees[1]) = ShapeS(r.tree) THEN {}
                                   ELSE {<<"trees_differ">>})
                        ELSE {})
      \* partial parse included: both parsers ran with the same flag.  On the unchanged tree the two
      \* differ where a head keeps a token recognised in the state BEFORE a reduction (LALR-merged
      \* lookahead) and the state after it expects only STOP: LR lexes again and stops, GLR reports an
      \* error -- known finding C07-F1 (matched by signature in known_findings.json, not excused here)
      c07 == c07all
      expOff == IF vl < Len(w) THEN r.lex[vl + 1][1] ELSE Len(r.bytes)
      anylex == "anylex" \in DOMAIN r.meta /\ r.meta.anylex
      c12 == IF r.gres.k # "err" \/ r.partial \/ ~meta.plain \/ ~Reduced(T, C.P) \/ islat \/ anylex THEN {}
             ELSE (IF r.gres.o = expOff THEN {} ELSE {<<"error_offset", r.gres.o, expOff>>})
                  \cup (IF PosOK(r.bytes, r.gres.o, r.gres.l, r.gres.c) THEN {}
                        ELSE {<<"error_linecol", r.gres.o, r.gres.l, r.gres.c>>})
                  \cup (IF r.gres.nexp >= 1 THEN {} ELSE {<<"no_expected_tokens">>})
      c13 == IF gok THEN UNION {C13TreeWs(r.bytes, trees[i], T.augl < 0) : i \in 1 .. Len(trees)} ELSE {}
      c15 == IF r.gres.k \in {"ok", "err"} THEN {} ELSE {<<r.gres.k, r.gres.msg>>}
      cyc == Cyc[g2]
      \* binding of the OPERATIONAL module: GLRRuntime run on the same tokens over the
      \* same dumped table must predict the observed result and number of solutions
      \* (a difference is a DIVERGENCE, never a verdict)
      model == IF islat \/ cyc \/ Len(w) > 6 \/ f.n > 300 THEN [k |-> "skip", n |-> 0, amb |-> 0]
               ELSE LET G == RunP(T, w, r.partial)
                        fin == Len(G.acc) > 0 /\ ~G.abort /\ ~G.hang
                    IN [k |-> IF G.abort \/ G.hang THEN "abort" ELSE IF Len(G.acc) > 0 THEN "ok" ELSE "err",
                        n |-> IF fin THEN Solutions(G) ELSE 0,
                        amb |-> IF fin THEN Ambiguities(G) ELSE 0]
      opdiv == model.k # "skip" /\ r.gres.k \in {"ok", "err"}
               /\ (model.k # r.gres.k \/ (gok /\ (model.n # f.n \/ model.amb # f.amb)))
      \* Forest::ambiguities against Forest::solutions ("if there is > 1 trees in the forest there
      \* are ambiguities", and only then); no listed property speaks of it: DIVERGENCE
      ambdiv == IF gok /\ ~cyc /\ ((f.amb = 0) # (f.n = 1)) THEN {<<"ambiguities_vs_solutions", f.amb, f.n>>} ELSE {}
      \* twin records: b is the record this one is a variation of (b.iid = -1: none)
      twin == IF "twin" \in DOMAIN r.meta /\ b.iid = r.iid /\ b.id = r.id THEN r.meta.twin ELSE ""
      bok == b.gres.k = "ok"
      bshapes == {ShapeK(b.forest.trees[i]) : i \in 1 .. Len(b.forest.trees)}
      kshapes == {ShapeK(trees[i]) : i \in 1 .. Len(trees)}
      \* C14 (second sentence): the same tokens with other layout between them give the same forest
      c14 == IF twin # "layout" \/ r.gres.k \notin {"ok", "err"} \/ b.gres.k \notin {"ok", "err"} THEN {}
             ELSE (IF gok = bok THEN {} ELSE {<<"layout_changes_result", b.gres.k, r.gres.k>>})
                  \cup (IF gok /\ bok
                        THEN (IF f.n = b.forest.n THEN {} ELSE {<<"layout_changes_solutions", b.forest.n, f.n>>})
                             \cup (IF ~(f.complete /\ b.forest.complete) \/ kshapes = bshapes THEN {}
                                   ELSE {<<"layout_changes_trees">>})
                        ELSE {})
      \* partial parse with GLR (no listed property speaks about it: reported as DIVERGENCE):
      \* every tree derives a prefix of the tokens; what the full parse found is still found
      nl(t) == NLeaves(t)
      gp == (IF gok /\ r.partial /\ ~islat
             THEN UNION {IF nl(trees[i]) > Len(w) THEN {<<"more_leaves_than_tokens">>}
                         ELSE IF ~IsDerivation(C, trees[i], SubSeq(w, 1, nl(trees[i])), TRUE) THEN {<<"not_a_derivation_of_a_prefix", i>>}
                         ELSE LET l == Leaves(trees[i])
                              IN IF \A j \in 1 .. Len(l) : l[j].s = r.lex[j][1] /\ l[j].e = r.lex[j][1] + r.lex[j][2]
                                 THEN {} ELSE {<<"leaves_are_not_the_tokens", i>>}
                         : i \in 1 .. Len(trees)}
             ELSE {})
            \cup (IF twin = "partial" /\ bok /\ r.gres.k \in {"ok", "err"}
                  THEN (IF gok THEN {} ELSE {<<"partial_rejects_accepted_input">>})
                       \cup (IF gok /\ f.complete /\ b.forest.complete /\ ~(bshapes \subseteq kshapes)
                             THEN {<<"partial_loses_tree">>} ELSE {})
                  ELSE {})
  IN [cyclic |-> cyc, opdiv |-> opdiv, opmodel |-> model, c03 |-> c03, c07 |-> c07, c12 |-> c12, c13 |-> c13, c15 |-> c15,
      c14 |-> c14, gp |-> gp \cup ambdiv, amb |-> f.amb,
      sent |-> sent, ok |-> gok, n |-> f.n, nexp |-> nexp, inscope |-> inScope, ntok |-> Len(w),
      lrran |-> lrran]

NoRec == [iid |-> -1, id |-> ""]
BaseOf(i) ==
  LET r == Traces[i]
      k == IF "base" \in DOMAIN r.meta THEN r.meta.base ELSE 0
  IN IF k > 0 /\ i - k >= 1 THEN Traces[i - k] ELSE NoRec

Init == ci = 0
Next ==
  /\ ci < Len(Traces)
  /\ ci' = ci + 1
  /\ LET r == Traces[ci + 1]
     IN IF r.g2 > 0
        THEN PrintT(<<"VERDICT", ToJson([id |-> r.id, iid |-> r.iid, g2 |-> r.g2, partial |-> r.partial,
                                          mon |-> Monitors(r, BaseOf(ci + 1))])>>)
        ELSE TRUE
Spec == Init /\ [][Next]_ci
=============================================================================
