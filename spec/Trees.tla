------------------------------- MODULE Trees -------------------------------
(***************************************************************************)
(* ORACLE: derivation trees.                                               *)
(*  - IsDerivation: local check that a concrete tree (as recorded from the *)
(*    real TreeBuilder / forest) is a derivation of a token string.        *)
(*  - NTrees: number of distinct derivation trees of w (finite iff the     *)
(*    grammar is not cyclic), by a CYK-style count with minimal-length     *)
(*    pruning so that left recursion terminates.                           *)
(*  - EpsAmbiguous: some nullable symbol has two derivations of epsilon.   *)
(* A recorded tree node is a record                                        *)
(*   [k |-> "t"|"n", t |-> terminal, p |-> production, c |-> children ...] *)
(***************************************************************************)
EXTENDS Earley

RECURSIVE Leaves(_)
Leaves(n) ==
  IF n.k = "t" THEN <<n>>
  ELSE LET RECURSIVE Cat(_)
           Cat(i) == IF i > Len(n.c) THEN <<>> ELSE Leaves(n.c[i]) \o Cat(i + 1)
       IN Cat(1)

Yield(n) == LET l == Leaves(n) IN [i \in 1 .. Len(l) |-> l[i].t]

NodeSym(G, n) == IF n.k = "t" THEN n.t ELSE Lhs(G, n.p)

\* Every interior node is a production whose right-hand side matches its
\* children; with allowElide a node may have only the first m children when
\* the remaining symbols of the production are nullable (right-nulled reduction).
RECURSIVE WellFormedTree(_, _, _)
WellFormedTree(C, n, allowElide) ==
  IF n.k = "t" THEN n.t \in Terms(C.G) /\ n.t # C.G.stop
  ELSE /\ n.k = "n"
       /\ n.p \in ProdIdx(C.G)
       /\ Len(n.c) <= RhsLen(C.G, n.p)
       /\ \A i \in 1 .. Len(n.c) : NodeSym(C.G, n.c[i]) = Rhs(C.G, n.p)[i]
       /\ IF Len(n.c) = RhsLen(C.G, n.p) THEN TRUE
          ELSE allowElide /\ NullableFrom(C.G, C.N, n.p, Len(n.c))
       /\ \A i \in 1 .. Len(n.c) : WellFormedTree(C, n.c[i], allowElide)

IsDerivation(C, n, w, allowElide) ==
  /\ n.k = "n"
  /\ Lhs(C.G, n.p) = C.G.start
  /\ WellFormedTree(C, n, allowElide)
  /\ Yield(n) = w

\* Structural projection used to compare trees: production / terminal + children,
\* with trailing children of empty yield removed (recursively).
RECURSIVE Shape(_)
Shape(n) ==
  IF n.k = "t" THEN <<"t", n.t, n.s, n.e>>
  ELSE LET ch == [i \in 1 .. Len(n.c) |-> Shape(n.c[i])]
           RECURSIVE Trim(_)
           Trim(s) == IF s # <<>> /\ s[Len(s)][1] = "n" /\ s[Len(s)][4] = 0
                      THEN Trim(SubSeq(s, 1, Len(s) - 1)) ELSE s
           RECURSIVE YLen(_)
           YLen(i) == IF i > Len(ch) THEN 0 ELSE (IF ch[i][1] = "t" THEN 1 ELSE ch[i][4]) + YLen(i + 1)
       IN <<"n", n.p, Trim(ch), YLen(1)>>

(* ---- counting derivation trees ---------------------------------------- *)
\* minimal yield length of each symbol (terminals 1); used to prune splits
RECURSIVE MinLenFix(_, _)
MinLenFix(G, M) ==
  LET Sum(p) == LET RECURSIVE Acc(_)
                    Acc(i) == IF i > RhsLen(G, p) THEN 0
                              ELSE LET m == M[Rhs(G, p)[i]] IN IF m < 0 \/ Acc(i + 1) < 0 THEN -1 ELSE m + Acc(i + 1)
                IN Acc(1)
      M2 == [s \in Symbols(G) |->
              IF IsTerm(G, s) THEN 1
              ELSE LET c == {Sum(p) : p \in ProdsOf(G, s)} \ {-1}
                   IN IF c = {} THEN M[s]
                      ELSE LET m == CHOOSE x \in c : \A y \in c : x <= y
                           IN IF M[s] < 0 \/ m < M[s] THEN m ELSE M[s]]
  IN IF M2 = M THEN M ELSE MinLenFix(G, M2)
MinLen(G) == MinLenFix(G, [s \in Symbols(G) |-> IF IsTerm(G, s) THEN 1 ELSE -1])

\* Number of trees deriving the lattice span (i, j) from symbol X / from rhs(p)[d+1..].
\* The input is a TOKEN LATTICE: a set E of edges <<i, t, j>> ("terminal t matches
\* from node i to node j", nodes are integers, i < j).  A plain token string is the
\* linear lattice {<<k-1, w[k], k>>}; lexically ambiguous text gives a proper lattice
\* (nodes = byte offsets after layout).  Terminates for non-cyclic grammars: a
\* recursive call on the same (X,i,j) can only be reached through symbols whose
\* siblings all derive epsilon.
LinEdges(w) == {<<k - 1, w[k], k>> : k \in 1 .. Len(w)}

RECURSIVE NT(_, _, _, _, _, _), NS(_, _, _, _, _, _, _)
NT(G, M, E, X, i, j) ==
  IF IsTerm(G, X) THEN (IF <<i, X, j>> \in E THEN 1 ELSE 0)
  ELSE IF M[X] < 0 \/ M[X] > j - i THEN 0
  ELSE LET ps == ProdsOf(G, X)
           RECURSIVE Sum(_)
           Sum(S) == IF S = {} THEN 0
                     ELSE LET p == CHOOSE x \in S : TRUE IN NS(G, M, E, p, 0, i, j) + Sum(S \ {p})
       IN Sum(ps)
NS(G, M, E, p, d, i, j) ==
  IF d = RhsLen(G, p) THEN (IF i = j THEN 1 ELSE 0)
  ELSE LET X == RhsAt(G, p, d)
           restMin == LET RECURSIVE Acc(_)
                          Acc(k) == IF k > RhsLen(G, p) THEN 0
                                    ELSE (IF M[Rhs(G, p)[k]] < 0 THEN 1000 ELSE M[Rhs(G, p)[k]]) + Acc(k + 1)
                      IN Acc(d + 2)
           RECURSIVE Sum(_)
           Sum(k) == IF k > j - restMin THEN 0
                     ELSE LET r == NS(G, M, E, p, d + 1, k, j)
                          IN (IF r = 0 THEN 0 ELSE NT(G, M, E, X, i, k) * r) + Sum(k + 1)
       IN IF M[X] < 0 THEN 0 ELSE Sum(i + M[X])

NTrees(C, w) == LET M == MinLen(C.G) IN NT(C.G, M, LinEdges(w), C.G.start, 0, Len(w))
\* lat = [start, end, edges]
NTreesLat(C, lat) == LET M == MinLen(C.G) IN NT(C.G, M, lat.edges, C.G.start, lat.start, lat.end)

EpsAmbiguous(C) ==
  LET M == MinLen(C.G)
  IN \E X \in C.N : NT(C.G, M, {}, X, 0, 0) > 1
=============================================================================
