------------------------------- MODULE CheckLex ----------------------------
(***************************************************************************)
(* C06 (I -> S): recorded runs of the real StringLexer + LR / GLR parser   *)
(* on grammars  S: T1 | ... | Tn  (all terminals expected in the start     *)
(* state), with partial parsing so that the chosen token is observable     *)
(* whatever follows it.  The harness supplies, independently of rustemo,   *)
(* the match length of every terminal at the token position (r.lat).       *)
(* TLC compares the token the LR parser shifted / the tokens the GLR       *)
(* forest follows with LexDoc.Survivors, and (as a DIVERGENCE only) the    *)
(* dumped try-order with LexOrder.SortTerminals.                           *)
(***************************************************************************)
EXTENDS LexOrder, TLC, Json, IOUtils

Dumps  == ndJsonDeserialize(IOEnv.DUMPS)
Traces == ndJsonDeserialize(IOEnv.TRACES)
VARIABLE i

\* ascending sequence of a finite set of integers
RECURSIVE SeqOf(_)
SeqOf(S) == IF S = {} THEN <<>> ELSE LET x == CHOOSE y \in S : \A z \in S : y <= z IN <<x>> \o SeqOf(S \ {x})

RECURSIVE FirstLeaf(_)
FirstLeaf(n) == IF n.k = "t" THEN n ELSE FirstLeaf(n.c[1])

Verdict(r) ==
  LET gi == IF r.algo = "glr" THEN r.g2 ELSE r.g
      d  == Dumps[gi]
      T  == d.t
      f  == [ms |-> d.cfg.ms, lm |-> d.cfg.lm, go |-> d.cfg.go]
      Eall == SeqOf(TExpected(T, 0))
      E  == SeqOf(TExpected(T, 0) \ {T.stop})
      m  == [t \in Terms(T) |->
               IF \E j \in 1 .. Len(r.lat) : r.lat[j][1] = t
               THEN r.lat[CHOOSE j \in 1 .. Len(r.lat) : r.lat[j][1] = t][2] ELSE -1]
      want == Survivors(E, m, T, f)
      lr == r.algo = "lr"
      res == IF lr THEN r.res ELSE r.gres
      got == IF res.k # "ok" THEN {}
             ELSE IF lr THEN {r.ev[1].t}
             ELSE {FirstLeaf(r.forest.trees[j]).t : j \in 1 .. Len(r.forest.trees)}
      gotlen == IF res.k # "ok" THEN {}
                ELSE IF lr THEN {<<r.ev[1].t, r.ev[1].e - r.ev[1].s>>}
                ELSE {<<FirstLeaf(r.forest.trees[j]).t, FirstLeaf(r.forest.trees[j]).e - FirstLeaf(r.forest.trees[j]).s>>
                        : j \in 1 .. Len(r.forest.trees)}
      bad == (IF res.k \in {"ok", "err"} THEN {} ELSE {<<"abnormal_result", res.k>>})
             \cup (IF got = want THEN {} ELSE {<<"selected_tokens_differ", got, want>>})
             \cup (IF \A p \in gotlen : p[2] = m[p[1]] THEN {} ELSE {<<"token_length_differs", gotlen>>})
             \cup (IF lr \/ res.k # "ok" \/ r.forest.n = Cardinality(want) THEN {}
                   ELSE {<<"solutions_differ_from_survivors", r.forest.n, Cardinality(want)>>})
      \* C07 on a lexically overlapping grammar: the record of an LR case may also hold the GLR
      \* parser of the same grammar with the same strategies and grammar order on (what LR
      \* always applies last): both must select the same token
      pair == lr /\ r.g2 > 0 /\ r.gres.k \in {"ok", "err"} /\ r.res.k \in {"ok", "err"}
      gl == IF pair /\ r.gres.k = "ok"
            THEN {<<FirstLeaf(r.forest.trees[j]).t, FirstLeaf(r.forest.trees[j]).e - FirstLeaf(r.forest.trees[j]).s>>
                    : j \in 1 .. Len(r.forest.trees)}
            ELSE {}
      c07 == IF ~pair THEN {}
             ELSE IF (r.res.k = "ok") # (r.gres.k = "ok") THEN {<<"lr_glr_disagree", r.res.k, r.gres.k>>}
             ELSE IF r.res.k = "ok" /\ gl # gotlen THEN {<<"lr_glr_tokens_differ", gotlen, gl>>}
             ELSE {}
      sorted == [j \in 1 .. Len(T.states[1].sorted) |-> <<T.states[1].sorted[j][1], T.states[1].sorted[j][2] = 1>>]
  IN [id |-> r.id, iid |-> r.iid, algo |-> r.algo, bad |-> bad, c07 |-> c07,
      nmatch |-> Cardinality(Matching(E, m)), nsurv |-> Cardinality(want),
      sort_div |-> sorted # SortTerminals(Eall, T, f.ms)]

Init == i = 0
Next == /\ i < Len(Traces)
        /\ i' = i + 1
        /\ PrintT(<<"VERDICT", ToJson(Verdict(Traces[i + 1]))>>)
=============================================================================
