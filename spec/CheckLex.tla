------------------------------- MODULE CheckLex ----------------------------
(***************************************************************************)
(* C06 (I -> S): recorded runs of the real StringLexer + LR / GLR parser   *)
(* on grammars  S: T1 | ... | Tn  (all terminals expected in the start     *)
(* state), with partial parsing so that the chosen token is observable     *)
(* whatever follows it.  The harness supplies, independently of rustemo,   *)
(* the match length of every terminal at the token position (r.lat).       *)
(* TLC compares the token the LR parser shifted / the tokens the GLR       *)
(* forest follows with LexDoc.Survivors, and (as a DIVERGENCE only) the    *)
(* dumped try-order with LexOrder.SortTerminals.                           *)
(***************************************************************************)
EXTENDS LexOrder, LRRuntime, TLC, Json, IOUtils

Dumps  == ndJsonDeserialize(IOEnv.DUMPS)
Traces == ndJsonDeserialize(IOEnv.TRACES)
VARIABLE i

\* ascending sequence of a finite set of integers
RECURSIVE SeqOf(_)
SeqOf(S) == IF S = {} THEN <<>> ELSE LET x == CHOOSE y \in S : \A z \in S : y <= z IN <<x>> \o SeqOf(S \ {x})

RECURSIVE FirstLeaf(_)
FirstLeaf(n) == IF n.k = "t" THEN n ELSE FirstLeaf(n.c[1])

Verdict(r) ==
  LET gi == IF r.algo = "glr" THEN r.g2 ELSE r.g
      d  == Dumps[gi]
      T  == d.t
      f  == [ms |-> d.cfg.ms, lm |-> d.cfg.lm, go |-> d.cfg.go]
      Eall == SeqOf(TExpected(T, 0))
      E  == SeqOf(TExpected(T, 0) \ {T.stop})
      m  == [t \in Terms(T) |->
               IF \E j \in 1 .. Len(r.lat) : r.lat[j][1] = t
               THEN r.lat[CHOOSE j \in 1 .. Len(r.lat) : r.lat[j][1] = t][2] ELSE -1]
      want == Survivors(E, m, T, f)
      lr == r.algo = "lr"
      res == IF lr THEN r.res ELSE r.gres
      got == IF res.k # "ok" THEN {}
             ELSE IF lr THEN {r.ev[1].t}
             ELSE {FirstLeaf(r.forest.trees[j]).t : j \in 1 .. Len(r.forest.trees)}
      gotlen == IF res.k # "ok" THEN {}
                ELSE IF lr THEN {<<r.ev[1].t, r.ev[1].e - r.ev[1].s>>}
                ELSE {<<FirstLeaf(r.forest.trees[j]).t, FirstLeaf(r.forest.trees[j]).e - FirstLeaf(r.forest.trees[j]).s>>
                        : j \in 1 .. Len(r.forest.trees)}
      bad == (IF res.k \in {"ok", "err"} THEN {} ELSE {<<"abnormal_result", res.k>>})
             \cup (IF got = want THEN {} ELSE {<<"selected_tokens_differ", got, want>>})
             \cup (IF \A p \in gotlen : p[2] = m[p[1]] THEN {} ELSE {<<"token_length_differs", gotlen>>})
             \cup (IF lr \/ res.k # "ok" \/ r.forest.n = Cardinality(want) THEN {}
                   ELSE {<<"solutions_differ_from_survivors", r.forest.n, Cardinality(want)>>})
      \* C07 on a lexically overlapping grammar: the record of an LR case may also hold the GLR
      \* parser of the same grammar with the same strategies and grammar order on (what LR
      \* always applies last): both must select the same token
      pair == lr /\ r.g2 > 0 /\ r.gres.k \in {"ok", "err"} /\ r.res.k \in {"ok", "err"}
      gl == IF pair /\ r.gres.k = "ok"
            THEN {<<FirstLeaf(r.forest.trees[j]).t, FirstLeaf(r.forest.trees[j]).e - FirstLeaf(r.forest.trees[j]).s>>
                    : j \in 1 .. Len(r.forest.trees)}
            ELSE {}
      c07 == IF ~pair THEN {}
             ELSE IF (r.res.k = "ok") # (r.gres.k = "ok") THEN {<<"lr_glr_disagree", r.res.k, r.gres.k>>}
             ELSE IF r.res.k = "ok" /\ gl # gotlen THEN {<<"lr_glr_tokens_differ", gotlen, gl>>}
             ELSE {}
      sorted == [j \in 1 .. Len(T.states[1].sorted) |-> <<T.states[1].sorted[j][1], T.states[1].sorted[j][2] = 1>>]
  IN [id |-> r.id, iid |-> r.iid, algo |-> r.algo, bad |-> bad, c07 |-> c07,
      nmatch |-> Cardinality(Matching(E, m)), nsurv |-> Cardinality(want),
      sort_div |-> sorted # SortTerminals(Eall, T, f.ms)]

\* Context cases:  S: P0 A L0 | P1 A L1 | ...;  A: X;  input "<Pi> <X> <window>".  The state
\* "A: X ." is shared by all contexts (its lookaheads are all the Lj), the state after the
\* reduction expects Li only: the token has to be chosen among the terminals expected in the
\* state the parser is in AFTER the reduction.  That state comes from LRRuntime on the dumped
\* table (shift Pi, shift X, reduce on Li), the choice from LexDoc.Survivors.
CtxVerdict(r) ==
  LET d  == Dumps[r.g]
      T  == d.t
      f  == [ms |-> d.cfg.ms, lm |-> d.cfg.lm, go |-> d.cfg.go]
      tk(t) == [t |-> t, s |-> 0, e |-> 0]
      c1 == ShiftStep(T, InitCfg(0, 0), tk(r.meta.path[1]))
      c2 == ShiftStep(T, c1, tk(r.meta.path[2]))
      c3 == Step(T, c2, tk(r.meta.li))
      st == TopSt(c3)
      E  == SeqOf(TExpected(T, st) \ {T.stop})
      m  == [t \in Terms(T) |->
               IF \E j \in 1 .. Len(r.lat) : r.lat[j][1] = t
               THEN r.lat[CHOOSE j \in 1 .. Len(r.lat) : r.lat[j][1] = t][2] ELSE -1]
      want == Survivors(E, m, T, f)
      lv == IF r.res.k = "ok" THEN Leaves(r.tree) ELSE <<>>
      got == IF Len(lv) >= 3 THEN {lv[3].t} ELSE {}
      bad == (IF r.res.k \in {"ok", "err"} THEN {} ELSE {<<"abnormal_result", r.res.k>>})
             \cup (IF got = want THEN {} ELSE {<<"selected_tokens_differ_after_reduction", got, want>>})
  IN [id |-> r.id, iid |-> r.iid, algo |-> r.algo, bad |-> bad, c07 |-> {},
      nmatch |-> Cardinality(Matching(E, m)), nsurv |-> Cardinality(want), sort_div |-> FALSE]

IsCtx(r) == "ctx" \in DOMAIN r.meta
Init == i = 0
Next == /\ i < Len(Traces)
        /\ i' = i + 1
        /\ PrintT(<<"VERDICT", ToJson(IF IsCtx(Traces[i + 1]) THEN CtxVerdict(Traces[i + 1])
                                       ELSE Verdict(Traces[i + 1]))>>)
=============================================================================
