CONSTANT PopLast = FALSE
CONSTANT AsFoundFold = FALSE
INIT Init
NEXT Next
INVARIANT Monitors
CHECK_DEADLOCK FALSE
