------------------------------- MODULE Table -------------------------------
(***************************************************************************)
(* Reading a dumped LR table (the JSON the cfg(rustemo_verif) hook writes; *)
(* the same record also carries the grammar, so a table T can be used      *)
(* wherever a grammar G is expected), and TableWF: static well-formedness  *)
(* of a table.  With LRRuntime's step relation TableWF gives, by induction *)
(* on the run and hence for inputs of unbounded length, that the parser    *)
(* never aborts on a goto/cell lookup and that every reduction pops states *)
(* that spell the production's right-hand side.                            *)
(***************************************************************************)
EXTENDS Trees

(* ---- reading the dumped automaton ------------------------------------- *)
NStates(T)      == Len(T.states)
TState(T, q)    == T.states[q + 1]
TItems(T, q)    == Range(T.states[q + 1].items)
TCore(T, q)     == {<<it.p, it.d>> : it \in TItems(T, q)}
TCell(T, q, t)  == Range(T.states[q + 1].actions[t + 1])
TShift(T, q, t) == LET sh == {a \in TCell(T, q, t) : a.k = "s"}
                   IN IF sh = {} THEN -1 ELSE (CHOOSE a \in sh : TRUE).s
TGoto(T, q, A)  == T.states[q + 1].gotos[A - T.nterm + 1]
TTrans(T, q, X) == IF X < T.nterm THEN TShift(T, q, X) ELSE TGoto(T, q, X)
TReduces(T, q, t) == {<<a.p, a.n>> : a \in {b \in TCell(T, q, t) : b.k = "r"}}
TAccepts(T, q, t) == \E a \in TCell(T, q, t) : a.k = "a"
TRoots(T)  == IF T.augl >= 0 THEN <<0, 1>> ELSE <<0>>
TRootStates(T) == IF T.augl >= 0 THEN <<0, T.layout_state>> ELSE <<0>>
TLa(it) == Range(it.la)


TStates(T) == 0 .. (NStates(T) - 1)
TExpected(T, q) == {pr[1] : pr \in Range(T.states[q + 1].sorted)}
TAllReduces(T, q) == UNION {TReduces(T, q, t) : t \in Terms(T)}

\* predecessor map of a table, computed once: function state -> set of states with a
\* transition into it
PredMap(T) ==
  LET tr == {<<r, TTrans(T, r, X)>> : r \in TStates(T), X \in Symbols(T)}
  IN [q \in TStates(T) |-> {p[1] : p \in {x \in tr : x[2] = q}}]

\* the set of states reachable by walking back n transitions from qs, together
\* with the check that the states popped spell rhs(p)[1..n]
RECURSIVE BackRoots(_, _, _)
BackRoots(pm, qs, n) ==
  IF n = 0 THEN qs ELSE BackRoots(pm, UNION {pm[q] : q \in qs}, n - 1)

RECURSIVE SpellsOK(_, _, _, _, _)
SpellsOK(T, pm, qs, p, n) ==
  \/ n = 0
  \/ /\ \A q \in qs : TState(T, q).sym = Rhs(T, p)[n]
     /\ SpellsOK(T, pm, UNION {pm[q] : q \in qs}, p, n - 1)

\* A cycle of EMPTY reductions under one lookahead: the LR parser reduces forever
\* without consuming input.  Cannot exist in a table whose cells were never resolved
\* (it would be a reduce/reduce or shift/reduce conflict of a cyclic or hidden-left-
\* recursive grammar), but priorities / associativity / shift preference given by the
\* user can resolve every such conflict in favour of the EMPTY reduction.
EpsStep(T, q, t) ==
  LET cell == T.states[q + 1].actions[t + 1]
  IN IF Len(cell) >= 1 /\ cell[1].k = "r" /\ cell[1].n = 0 THEN TGoto(T, q, Lhs(T, cell[1].p)) ELSE -1
RECURSIVE EpsWalk(_, _, _, _)
EpsWalk(T, q, t, seen) ==
  LET n == EpsStep(T, q, t)
  IN IF n < 0 THEN FALSE ELSE IF n \in seen THEN TRUE ELSE EpsWalk(T, n, t, seen \cup {n})
EpsLoops(T) == {qt \in (0 .. (NStates(T) - 1)) \X Terms(T) : EpsWalk(T, qt[1], qt[2], {qt[1]})}

\* The set of named defects of a table (empty = well-formed).
WFDefects(T, C) ==
  LET Qs == TStates(T)
      pm == PredMap(T)
      shifts == UNION {{<<"shift_symbol", q, t>> :
                           t \in {u \in Terms(T) : TShift(T, q, u) >= 0 /\
                                                    TState(T, TShift(T, q, u)).sym # u}}
                       : q \in Qs}
      gotos == UNION {{<<"goto_symbol", q, A>> :
                          A \in {B \in NonTerms(T) : TGoto(T, q, B) >= 0 /\
                                                      TState(T, TGoto(T, q, B)).sym # B}}
                      : q \in Qs}
      expd == {<<"expected_differs", q>> :
                 q \in {x \in Qs : TExpected(T, x) # {t \in Terms(T) : TCell(T, x, t) # {}}}}
      reds == UNION {{<<"reduce_ill_formed", q, pn[1], pn[2]>> :
                         pn \in {x \in TAllReduces(T, q) :
                                   ~ /\ x[2] <= RhsLen(T, x[1])
                                     /\ NullableFrom(T, C.N, x[1], x[2])
                                     /\ SpellsOK(T, pm, {q}, x[1], x[2])
                                     /\ \A r \in BackRoots(pm, {q}, x[2]) :
                                           TGoto(T, r, Lhs(T, x[1])) >= 0}}
                     : q \in Qs}
  IN shifts \cup gotos \cup expd \cup reds
=============================================================================
