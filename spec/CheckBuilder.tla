----------------------------- MODULE CheckBuilder --------------------------
(* C09 (I -> S): grammar_json of the real builder for rendered documents is  *)
(* compared by TLC with the abstract document (Builder.BuilderDefects).      *)
EXTENDS Builder, TLC, Json, IOUtils
Recs == ndJsonDeserialize(IOEnv.RECS)
VARIABLE i
Init == i = 0
Next == /\ i < Len(Recs)
        /\ i' = i + 1
        /\ PrintT(<<"VERDICT", ToJson([id |-> Recs[i + 1].id,
                                        bad |-> BuilderDefects(Recs[i + 1].doc, Recs[i + 1].g)])>>)
=============================================================================
