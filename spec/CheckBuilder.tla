----------------------------- MODULE CheckBuilder --------------------------
(* C09 (I -> S): grammar_json of the real builder for rendered documents is  *)
(* compared by TLC with the abstract document (Builder.BuilderDefects).      *)
EXTENDS Builder, TLC, Json, IOUtils
Recs == ndJsonDeserialize(IOEnv.RECS)
VARIABLE i
Init == i = 0
Next == /\ i < Len(Recs)
        /\ i' = i + 1
        /\ LET r == Recs[i + 1]
           IN \* the documents are valid by construction (every reference defined, no recursion,
              \* kinds unique per rule): the compiler has to build a grammar from each
              PrintT(<<"VERDICT", ToJson([id |-> r.id,
                        \* r.reject: a document that names a rule like the helper rule of a
                        \* repetition it uses: the two cannot both exist, the compiler has to say so
                        bad |-> IF "err" \in DOMAIN r.g
                                THEN (IF r.reject THEN {} ELSE {<<"valid_document_rejected", r.g.err, r.g.msg>>})
                                ELSE IF ~ConsistentG(r.g) THEN {<<"built_grammar_is_inconsistent">>}
                                ELSE (IF r.reject THEN {<<"helper_name_clash_accepted">>} ELSE {})
                                     \cup BuilderDefects(r.doc, r.g)])>>)
=============================================================================
