----------------------------- MODULE GLRRuntime ----------------------------
(***************************************************************************)
(* OPERATIONAL: the right-nulled GLR parser as implemented in              *)
(* rustemo/src/glr/parser.rs + gss.rs, over a dumped LALR_RN table T, at   *)
(* token level (lexically unambiguous input: every head of a frontier sees *)
(* the same lookahead, so there is one sub-frontier per frontier).         *)
(*                                                                         *)
(* GSS = [nodes, edges, sub]                                               *)
(*   nodes : sequence of [st, pos]                 node id = index         *)
(*   edges : sequence of [head, root, poss]        edge id = index,        *)
(*           head -> root back link; poss = sequence of possibilities      *)
(*           [k |-> "t", t, at]  (shifted token t, token index at)         *)
(*           [k |-> "n", p, ch]  (reduction by p over child edge ids ch)   *)
(*   sub   : function LR state -> node id of the current frontier (0=none) *)
(* One frontier = create_frontier + initial_process_frontier + reducer     *)
(* (pending reductions popped FIFO, paths found breadth first, back edges  *)
(* of a node visited newest first, as petgraph does) + shifter.            *)
(* Every work-list rule of the code is kept: the re-queue condition        *)
(* (edge_created /\ len > 0) \/ head_created, shifts/accepts only for      *)
(* created heads, the same-production fold with the common-prefix test.    *)
(***************************************************************************)
EXTENDS Table

\* TRUE models the reducer before the repair of the same-production fold (solutions of
\* one production with different path lengths were folded without the prefix test);
\* kept so that the model can be shown to bite (MCI_GLR_asfound.cfg)
CONSTANT AsFoundFold

\* FALSE: pending reductions are popped from the front (FIFO, as the code does);
\* TRUE: from the back (LIFO).  Used to show that the forest does not depend on the
\* order in which the reducer's work list is processed (MCI_GLR_lifo.cfg).
CONSTANT PopLast

EmptyGSS(T) == [nodes |-> <<[st |-> 0, pos |-> 0]>>, edges |-> <<>>,
                sub |-> [q \in TStates(T) |-> 0]]

\* back edges of a node, newest first
RECURSIVE BackEdgesFrom(_, _, _)
BackEdgesFrom(g, n, i) ==
  IF i = 0 THEN <<>>
  ELSE (IF g.edges[i].head = n THEN <<i>> ELSE <<>>) \o BackEdgesFrom(g, n, i - 1)
BackEdges(g, n) == BackEdgesFrom(g, n, Len(g.edges))

EdgeBetween(g, h, r) ==
  LET S == {i \in 1 .. Len(g.edges) : g.edges[i].head = h /\ g.edges[i].root = r}
  IN IF S = {} THEN 0 ELSE CHOOSE i \in S : TRUE

\* find_reduction_paths: breadth first over a FIFO of pending paths;
\* a path = [root, ch] with ch the edge ids from the root side to the head side
RECURSIVE PathsBFS(_, _, _)
PathsBFS(g, pending, acc) ==
  IF pending = <<>> THEN acc
  ELSE LET p == Head(pending)
       IN IF p.left = 0 THEN PathsBFS(g, Tail(pending), Append(acc, [root |-> p.cur, ch |-> p.ch]))
          ELSE LET be == BackEdges(g, p.cur)
                   more == [i \in 1 .. Len(be) |->
                              [cur |-> g.edges[be[i]].root, left |-> p.left - 1, ch |-> <<be[i]>> \o p.ch]]
               IN PathsBFS(g, Tail(pending) \o more, acc)

\* r = [edge, node, p, n]: start edge (n > 0) or start node (n = 0)
Paths(g, r) ==
  IF r.n = 0 THEN <<[root |-> r.node, ch |-> <<>>]>>
  ELSE PathsBFS(g, <<[cur |-> g.edges[r.edge].root, left |-> r.n - 1, ch |-> <<r.edge>>]>>, <<>>)

StartHead(g, r) == IF r.n = 0 THEN r.node ELSE g.edges[r.edge].head

SamePrefix(a, b) == AsFoundFold \/ \A i \in 1 .. (IF Len(a) < Len(b) THEN Len(a) ELSE Len(b)) : a[i] = b[i]

\* register the actions of a (new) solution: X = [g, red, sh, acc]
RegisterActions(T, X, la, h, e, headCreated, edgeCreated) ==
  LET cell == TState(T, X.g.nodes[h].st).actions[la + 1]
      RECURSIVE Each(_, _)
      Each(i, Y) ==
        IF i > Len(cell) THEN Y
        ELSE LET a == cell[i]
             IN CASE a.k = "r" ->
                       IF (edgeCreated /\ a.n > 0) \/ headCreated
                       THEN Each(i + 1, [Y EXCEPT !.red = Append(@, [edge |-> IF a.n > 0 THEN e ELSE 0,
                                                                     node |-> IF a.n > 0 THEN 0 ELSE h,
                                                                     p |-> a.p, n |-> a.n])])
                       ELSE Each(i + 1, Y)
                  [] a.k = "s" ->
                       IF headCreated THEN Each(i + 1, [Y EXCEPT !.sh = Append(@, <<h, a.s>>)])
                       ELSE Each(i + 1, Y)
                  [] OTHER ->
                       IF headCreated THEN Each(i + 1, [Y EXCEPT !.acc = Append(@, h)]) ELSE Each(i + 1, Y)
  IN Each(1, X)

\* one reduction path
ReducePath(T, X, la, r, path, pos) ==
  LET g == X.g
      rootSt == g.nodes[path.root].st
      nextSt == TGoto(T, rootSt, Lhs(T, r.p))
  IN IF nextSt < 0 THEN [X EXCEPT !.abort = TRUE]
     ELSE IF Len(TState(T, nextSt).actions[la + 1]) = 0 THEN X
     ELSE
       LET headCreated == g.sub[nextSt] = 0
           g1 == IF headCreated
                 THEN [g EXCEPT !.nodes = Append(@, [st |-> nextSt, pos |-> pos]),
                                !.sub[nextSt] = Len(g.nodes) + 1]
                 ELSE g
           h == g1.sub[nextSt]
           e0 == EdgeBetween(g1, h, path.root)
           edgeCreated == e0 = 0
           g2 == IF edgeCreated THEN [g1 EXCEPT !.edges = Append(@, [head |-> h, root |-> path.root, poss |-> <<>>])]
                 ELSE g1
           e == IF edgeCreated THEN Len(g2.edges) ELSE e0
           poss == g2.edges[e].poss
           isNew == headCreated \/ edgeCreated \/
                    \A i \in 1 .. Len(poss) :
                       /\ poss[i].k = "n"
                       /\ (poss[i].p # r.p \/ Len(path.ch) = Len(poss[i].ch) \/ ~SamePrefix(poss[i].ch, path.ch))
       IN IF ~isNew
          THEN \* "extending right-nulled children" of the first matching solution
               LET cand == {i \in 1 .. Len(poss) : poss[i].k = "n" /\ poss[i].p = r.p
                                                    /\ Len(path.ch) > Len(poss[i].ch) /\ SamePrefix(poss[i].ch, path.ch)}
               IN IF cand = {} THEN [X EXCEPT !.g = g2]
                  ELSE LET i == CHOOSE x \in cand : \A y \in cand : x <= y
                       IN [X EXCEPT !.g = [g2 EXCEPT !.edges[e].poss[i].ch = path.ch]]
          ELSE LET g3 == [g2 EXCEPT !.edges[e].poss = Append(@, [k |-> "n", t |-> -1, at |-> -1, p |-> r.p, ch |-> path.ch])]
               IN RegisterActions(T, [X EXCEPT !.g = g3], la, h, e, headCreated, edgeCreated)

RECURSIVE Reducer(_, _, _, _, _)
Reducer(T, X, la, pos, fuel) ==
  IF X.red = <<>> \/ X.abort THEN X
  ELSE IF fuel = 0 THEN [X EXCEPT !.hang = TRUE]
  ELSE LET r == IF PopLast THEN X.red[Len(X.red)] ELSE Head(X.red)
           X1 == [X EXCEPT !.red = IF PopLast THEN SubSeq(@, 1, Len(@) - 1) ELSE Tail(@)]
           ps == Paths(X1.g, r)
           RECURSIVE Each(_, _)
           Each(i, Y) == IF i > Len(ps) \/ Y.abort THEN Y ELSE Each(i + 1, ReducePath(T, Y, la, r, ps[i], pos))
       IN Reducer(T, Each(1, X1), la, pos, fuel - 1)

\* initial_process_frontier: heads of the sub-frontier in LR-state order
InitialProcess(T, X, la) ==
  LET sts == {q \in TStates(T) : X.g.sub[q] # 0}
      RECURSIVE PerState(_, _)
      PerState(S, Y) ==
        IF S = {} THEN Y
        ELSE LET q == CHOOSE x \in S : \A y \in S : x <= y
                 h == Y.g.sub[q]
                 cell == TState(T, q).actions[la + 1]
                 RECURSIVE PerAction(_, _)
                 PerAction(i, Z) ==
                   IF i > Len(cell) THEN Z
                   ELSE LET a == cell[i]
                        IN CASE a.k = "r" ->
                                  IF a.n = 0
                                  THEN PerAction(i + 1, [Z EXCEPT !.red = Append(@, [edge |-> 0, node |-> h, p |-> a.p, n |-> 0])])
                                  ELSE LET be == BackEdges(Z.g, h)
                                       IN PerAction(i + 1, [Z EXCEPT !.red = @ \o [j \in 1 .. Len(be) |->
                                                              [edge |-> be[j], node |-> 0, p |-> a.p, n |-> a.n]]])
                             [] a.k = "s" -> PerAction(i + 1, [Z EXCEPT !.sh = Append(@, <<h, a.s>>)])
                             [] OTHER -> PerAction(i + 1, [Z EXCEPT !.acc = Append(@, h)])
             IN PerState(S \ {q}, PerAction(1, Y))
  IN PerState(sts, X)

\* shifter: pending shifts popped LIFO; one new head per target state (all at pos + 1)
RECURSIVE Shifter(_, _, _, _, _)
Shifter(g, sh, la, pos, made) ==
  IF sh = <<>> THEN [g |-> g, made |-> made]
  ELSE LET item == sh[Len(sh)]
           rest == SubSeq(sh, 1, Len(sh) - 1)
           h == item[1]
           st == item[2]
           exists == made[st] # 0
           g1 == IF exists THEN g ELSE [g EXCEPT !.nodes = Append(@, [st |-> st, pos |-> pos + 1])]
           nh == IF exists THEN made[st] ELSE Len(g1.nodes)
           made1 == [made EXCEPT ![st] = nh]
           e0 == EdgeBetween(g1, nh, h)
           term == [k |-> "t", t |-> la, at |-> pos + 1, p |-> -1, ch |-> <<>>]
           g2 == IF e0 = 0 THEN [g1 EXCEPT !.edges = Append(@, [head |-> nh, root |-> h, poss |-> <<term>>])]
                 ELSE [g1 EXCEPT !.edges[e0].poss = Append(@, term)]
       IN Shifter(g2, rest, la, pos, made1)

\* One sub-frontier: the heads `live` of the frontier base all see lookahead la.
\* Returns X = [g, red, sh, acc, abort, hang] after initial_process_frontier + reducer.
SubFrontier(T, g, acc, live, la, pos) ==
  LET sub0 == [q \in TStates(T) |-> IF \E n \in live : g.nodes[n].st = q
                                     THEN CHOOSE n \in live : g.nodes[n].st = q ELSE 0]
      X0 == [g |-> [g EXCEPT !.sub = sub0], red |-> <<>>, sh |-> <<>>, acc |-> acc, abort |-> FALSE, hang |-> FALSE]
      X1 == InitialProcess(T, X0, la)
  IN Reducer(T, X1, la, pos, 400)

\* One frontier with lookahead la (0 = STOP; -1 = text no terminal matches).
\* G = [g, base, acc, pos, abort, hang]: base = set of node ids created by the last
\* shifter (the frontier base).
\* find_lookaheads with partial parse: a head whose state does not expect la but expects
\* STOP gets the synthetic STOP token.  The frontier is keyed by (position, token kind)
\* and STOP is the smallest kind, so the STOP sub-frontier is reduced first; it can only
\* accept (nothing is shifted on STOP); the heads it creates are not visible to the
\* sub-frontier of la.
FrontierP(T, G, la, partial) ==
  LET stopHeads == IF partial /\ la # T.stop
                   THEN {n \in G.base : la \notin TExpected(T, G.g.nodes[n].st)
                                          /\ T.stop \in TExpected(T, G.g.nodes[n].st)}
                   ELSE {}
      XS == IF stopHeads = {} THEN [g |-> G.g, acc |-> G.acc, abort |-> FALSE, hang |-> FALSE]
            ELSE SubFrontier(T, G.g, G.acc, stopHeads, T.stop, G.pos)
      live == {n \in G.base : la \in TExpected(T, G.g.nodes[n].st)}     \* create_frontier / find_lookaheads
      X2 == SubFrontier(T, XS.g, XS.acc, live, la, G.pos)
      S  == Shifter(X2.g, X2.sh, la, G.pos, [q \in TStates(T) |-> 0])
      newBase == {S.made[q] : q \in {x \in TStates(T) : S.made[x] # 0}}
  IN [g |-> S.g, base |-> newBase, acc |-> X2.acc, pos |-> G.pos + 1,
      abort |-> X2.abort \/ XS.abort, hang |-> X2.hang \/ XS.hang,
      lastBase |-> IF newBase = {} THEN G.base ELSE G.lastBase]
Frontier(T, G, la) == FrontierP(T, G, la, FALSE)

InitG(T) == [g |-> EmptyGSS(T), base |-> {1}, acc |-> <<>>, pos |-> 0, abort |-> FALSE, hang |-> FALSE, lastBase |-> {}]

(* ---- the forest ------------------------------------------------------------ *)
RECURSIVE SolEdge(_, _), SolPoss(_, _)
SolPoss(g, ps) ==
  IF ps.k = "t" THEN 1
  ELSE LET RECURSIVE Mul(_)
           Mul(i) == IF i > Len(ps.ch) THEN 1 ELSE SolEdge(g, ps.ch[i]) * Mul(i + 1)
       IN Mul(1)
SolEdge(g, e) ==
  LET RECURSIVE Sum(_)
      Sum(i) == IF i > Len(g.edges[e].poss) THEN 0 ELSE SolPoss(g, g.edges[e].poss[i]) + Sum(i + 1)
  IN Sum(1)

\* create_forest: possibilities of all back edges of all accepted heads
Solutions(G) ==
  LET RECURSIVE PerHead(_)
      PerHead(i) ==
        IF i > Len(G.acc) THEN 0
        ELSE LET be == BackEdges(G.g, G.acc[i])
                 RECURSIVE PerEdge(_)
                 PerEdge(j) == IF j > Len(be) THEN 0 ELSE SolEdge(G.g, be[j]) + PerEdge(j + 1)
             IN PerEdge(1) + PerHead(i + 1)
  IN PerHead(1)

\* Forest::ambiguities: one for every parent link with more than one possibility that is
\* reachable from the result trees (a link is visited once: `visited` is keyed by (root, head),
\* i.e. by the edge), plus one when the forest has more than one result tree.  The order of the
\* traversal does not matter: every reachable link is entered exactly once.
Ambiguities(G) ==
  LET g == G.g
      ChOf(ps) == IF ps.k = "t" THEN {} ELSE Range(ps.ch)
      ChOfEdge(e) == UNION {ChOf(g.edges[e].poss[i]) : i \in 1 .. Len(g.edges[e].poss)}
      RECURSIVE NRes(_)
      NRes(i) ==
        IF i > Len(G.acc) THEN 0
        ELSE LET be == BackEdges(g, G.acc[i])
                 RECURSIVE PerEdge(_)
                 PerEdge(j) == IF j > Len(be) THEN 0 ELSE Len(g.edges[be[j]].poss) + PerEdge(j + 1)
             IN PerEdge(1) + NRes(i + 1)
      start == UNION {UNION {ChOfEdge(e) : e \in Range(BackEdges(g, G.acc[i]))} : i \in 1 .. Len(G.acc)}
      RECURSIVE Close(_)
      Close(S) == LET N == S \cup UNION {ChOfEdge(e) : e \in S} IN IF N = S THEN S ELSE Close(N)
  IN Cardinality({e \in Close(start) : Len(g.edges[e].poss) > 1}) + (IF NRes(1) > 1 THEN 1 ELSE 0)

\* all trees of the forest as shapes <<"t", t, at>> / <<"n", p, children>>, trailing
\* children of empty yield elided; used to check that no tree occurs twice
RECURSIVE TreesEdge(_, _), TreesPoss(_, _), SeqProduct(_)
SeqProduct(sets) ==
  IF sets = <<>> THEN {<<>>}
  ELSE {<<x>> \o r : x \in Head(sets), r \in SeqProduct(Tail(sets))}
IsEmptyShape(s) == s[1] = "n" /\ s[4] = 0
RECURSIVE TrimShapes(_)
TrimShapes(s) == IF s # <<>> /\ IsEmptyShape(s[Len(s)]) THEN TrimShapes(SubSeq(s, 1, Len(s) - 1)) ELSE s
RECURSIVE YieldLen(_, _)
YieldLen(s, i) == IF i > Len(s) THEN 0 ELSE (IF s[i][1] = "t" THEN 1 ELSE s[i][4]) + YieldLen(s, i + 1)
TreesPoss(g, ps) ==
  IF ps.k = "t" THEN {<<"t", ps.t, ps.at, 1>>}
  ELSE {<<"n", ps.p, TrimShapes(c), YieldLen(c, 1)>> : c \in SeqProduct([i \in 1 .. Len(ps.ch) |-> TreesEdge(g, ps.ch[i])])}
TreesEdge(g, e) == UNION {TreesPoss(g, g.edges[e].poss[i]) : i \in 1 .. Len(g.edges[e].poss)}
ForestTrees(G) ==
  UNION {UNION {TreesEdge(G.g, e) : e \in Range(BackEdges(G.g, G.acc[i]))} : i \in 1 .. Len(G.acc)}

\* run on a whole token string (no STOP inside w; -1 = a place where no terminal matches),
\* for binding to recorded executions
RECURSIVE RunTokensP(_, _, _, _, _)
RunTokensP(T, G, w, i, partial) ==
  IF G.base = {} \/ G.abort \/ G.hang THEN G
  ELSE IF i > Len(w) THEN FrontierP(T, G, T.stop, partial)
  ELSE RunTokensP(T, FrontierP(T, G, w[i], partial), w, i + 1, partial)
RunP(T, w, partial) == RunTokensP(T, InitG(T), w, 1, partial)
RunTokens(T, G, w, i) == RunTokensP(T, G, w, i, FALSE)
Run(T, w) == RunP(T, w, FALSE)
=============================================================================
