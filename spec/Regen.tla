-------------------------------- MODULE Regen ------------------------------
(***************************************************************************)
(* OPERATIONAL + PROPERTY: the actions file as a sequence of items under   *)
(* regeneration (generator/actions/mod.rs generate_parser_actions).        *)
(* An item is <<kind, name, tokens>>, kind in {"type","fn","use","other"}. *)
(* Required is what a fresh generation writes for the grammar (a sequence  *)
(* of items); names live in two namespaces, types and functions.           *)
(*                                                                         *)
(* Generate(file, Required) (force = FALSE) keeps the file and appends, in *)
(* Required's order, every required item whose (namespace, name) is not    *)
(* present.  RegenOK is the statement of C18 on one observed regeneration. *)
(***************************************************************************)
EXTENDS Integers, Sequences, FiniteSets

Key(it) == <<it[1], it[2]>>
Named(it) == it[1] \in {"type", "fn"}
Keys(file) == {Key(file[i]) : i \in {j \in 1 .. Len(file) : Named(file[j])}}

RECURSIVE AppendMissing(_, _, _)
AppendMissing(file, Required, i) ==
  IF i > Len(Required) THEN file
  ELSE IF Named(Required[i]) /\ Key(Required[i]) \notin Keys(file)
       THEN AppendMissing(Append(file, Required[i]), Required, i + 1)
       ELSE AppendMissing(file, Required, i + 1)
Generate(file, Required) == AppendMissing(file, Required, 1)

\* the presence test as found before the repair: the types of a nonterminal were
\* treated as a group, present iff a type named like the nonterminal is present
\* (group[i] = name of the nonterminal that owns required item i, "" for others)
RECURSIVE AppendMissingAsFound(_, _, _, _)
AppendMissingAsFound(file, Required, group, i) ==
  IF i > Len(Required) THEN file
  ELSE LET it == Required[i]
           missing == IF it[1] = "type" /\ group[i] # ""
                      THEN <<"type", group[i]>> \notin Keys(file)
                      ELSE Key(it) \notin Keys(file)
       IN IF Named(it) /\ missing
          THEN AppendMissingAsFound(Append(file, it), Required, group, i + 1)
          ELSE AppendMissingAsFound(file, Required, group, i + 1)

NoDuplicates(file) ==
  \A i, j \in 1 .. Len(file) : i # j /\ Named(file[i]) /\ Named(file[j]) => Key(file[i]) # Key(file[j])

\* the set of discrepancies of one observed regeneration before -> after
RegenDefects(before, after, Required) ==
  LET kept == Len(after) >= Len(before) /\ SubSeq(after, 1, Len(before)) = before
      added == IF Len(after) >= Len(before) THEN SubSeq(after, Len(before) + 1, Len(after)) ELSE <<>>
      addedKeys == {Key(added[i]) : i \in 1 .. Len(added)}
      reqKeys == {Key(Required[i]) : i \in {j \in 1 .. Len(Required) : Named(Required[j])}}
      missing == reqKeys \ Keys(before)
  IN (IF kept THEN {} ELSE {<<"existing_items_not_kept">>})
     \cup {<<"missing_item_not_added", k>> : k \in missing \ addedKeys}
     \cup {<<"item_added_but_not_missing", k>> : k \in addedKeys \ missing}
     \cup (IF Cardinality(addedKeys) = Len(added) THEN {} ELSE {<<"same_item_added_twice">>})
     \cup (IF NoDuplicates(before) => NoDuplicates(after) THEN {} ELSE {<<"duplicate_item">>})
     \cup {<<"added_item_differs_from_fresh_generation", Key(added[i])>> :
              i \in {j \in 1 .. Len(added) :
                       \E r \in 1 .. Len(Required) : Key(Required[r]) = Key(added[j]) /\ Required[r] # added[j]}}
=============================================================================
