------------------------------ MODULE CheckRegen ---------------------------
(***************************************************************************)
(* C18 (I -> S): histories of operations on real actions files, performed  *)
(* with the real process_grammar (actions in the source tree, no force).   *)
(* Each history starts with a forced fresh generation, whose item list is  *)
(* Required.  After every later "generate" step TLC evaluates              *)
(* Regen.RegenDefects(before, after, Required) and compares the file with  *)
(* Regen.Generate (DIVERGENCE only).  A second regeneration must change    *)
(* nothing.                                                                *)
(***************************************************************************)
EXTENDS Regen, TLC, Json, IOUtils

Hists == ndJsonDeserialize(IOEnv.HISTS)
VARIABLE i

\* the preamble of a fresh file (use statements and the Input / Ctx / Token aliases) is
\* not derived from the grammar; C18 speaks of "the types and action functions that
\* are missing for the current grammar", so preamble items are kept but never required
Preamble == {"Input", "Ctx", "Token"}
Items(step) == [k \in 1 .. Len(step.items) |->
                  <<IF step.items[k][2] \in Preamble THEN "other" ELSE step.items[k][1],
                    step.items[k][2], step.items[k][3]>>]

Verdict(h) ==
  LET S == h.steps
      Required == Items(S[1])
      gens == {k \in 2 .. Len(S) : S[k].op = "generate"}
      bad == UNION {{<<k>> \o d : d \in RegenDefects(Items(S[k - 1]), Items(S[k]), Required)} : k \in gens}
             \cup {<<k, "compile_failed", S[k].outcome.outcome>> : k \in {j \in gens \cup {1} : S[j].outcome.outcome # "ok"}}
             \cup {<<k, "second_regeneration_changes_file">> :
                      k \in {j \in gens : j > 2 /\ S[j - 1].op = "generate" /\ Items(S[j]) # Items(S[j - 1])}}
      div == {k \in gens : Items(S[k]) # Generate(Items(S[k - 1]), Required)}
  IN [id |-> h.id, bad |-> bad, div |-> div, nsteps |-> Len(S), ngen |-> Cardinality(gens)]

Init == i = 0
Next == /\ i < Len(Hists)
        /\ i' = i + 1
        /\ PrintT(<<"VERDICT", ToJson(Verdict(Hists[i + 1]))>>)
=============================================================================
