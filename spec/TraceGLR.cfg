CONSTANT PopLast = FALSE
CONSTANT AsFoundFold = FALSE
INIT Init
NEXT Next
CHECK_DEADLOCK FALSE
