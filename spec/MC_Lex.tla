-------------------------------- MODULE MC_Lex -----------------------------
(***************************************************************************)
(* MODEL CHECKING LexOrder against LexDoc (design level, small scope):     *)
(* every set of NTerms terminals drawn from {string, regex} x priorities       *)
(* {5,10,20} x string lengths {1,2,3}, every match vector (no match, or a  *)
(* match of length 1..3; a matching string recogniser matches exactly its  *)
(* length), every combination of the three strategy switches, LR and GLR.  *)
(* Invariant: what the code's procedure selects is what the documentation  *)
(* prescribes.  One TLC state per configuration (chosen by Init).          *)
(***************************************************************************)
EXTENDS LexOrder, TLC

CONSTANT NTerms
VARIABLES terms, m, f, algo
vars == <<terms, m, f, algo>>

TermSpace == [rk : {"str", "re"}, prio : {5, 10, 20}, rl : 1 .. 3]
Init ==
  /\ terms \in [1 .. (NTerms + 1) -> TermSpace]          \* terms[1] is STOP (never expected here)
  /\ terms[1] = [rk |-> "re", prio |-> 5, rl |-> 1]
  /\ m \in [1 .. NTerms -> {-1, 1, 2, 3}]
  /\ \A t \in 1 .. NTerms : terms[t + 1].rk = "str" /\ m[t] >= 0 => m[t] = terms[t + 1].rl
  /\ \A t \in 1 .. NTerms : terms[t + 1].rk = "re" => terms[t + 1].rl = 1
  /\ f \in [ms : BOOLEAN, lm : BOOLEAN, go : BOOLEAN]
  /\ algo \in {"lr", "glr"}
  /\ algo = "lr" => f.go
Next == UNCHANGED vars

G == [terms |-> terms]
E == [i \in 1 .. NTerms |-> i]
\* the behaviour before the repair of lexer.rs (kept to show the model bites: TLC
\* reports a counterexample for this one, see MC_Lex_asfound.cfg)
AgreeAsFound == SelectedAsFound(SortTerminals(E, G, f.ms), m, f, algo) = Survivors(E, m, G, f)
Agree == Selected(SortTerminals(E, G, f.ms), m, f, algo) = Survivors(E, m, G, f)
=============================================================================
