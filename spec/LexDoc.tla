------------------------------- MODULE LexDoc ------------------------------
(***************************************************************************)
(* ORACLE for C06: the documented selection among the expected terminals   *)
(* that match at the current position.                                     *)
(*   E  : the expected terminals as a sequence in grammar order            *)
(*   m  : function terminal -> match length in bytes, -1 = no match        *)
(*   G  : the grammar (terms[t+1].prio, .rk = "str" | "re")                *)
(*   f  : [ms, lm, go] most_specific / longest_match / grammar_order       *)
(*        (go is TRUE for an LR parser)                                    *)
(* Order of strategies: highest priority; then (ms) the longest matching   *)
(* string recogniser over any regex; then (lm) the longest match; then     *)
(* (go) grammar order.  The result is the SET of surviving terminals: an   *)
(* LR parser acts on the single survivor, a GLR parser follows each.       *)
(***************************************************************************)
EXTENDS Table

Matching(E, m)   == {t \in Range(E) : m[t] >= 0}
TPrio(G, t)      == G.terms[t + 1].prio
IsStr(G, t)      == G.terms[t + 1].rk = "str"
TopPrio(M, G)    == {t \in M : \A u \in M : TPrio(G, t) >= TPrio(G, u)}
\* earliest member of X in the sequence E
FirstIn(E, X)    == E[CHOOSE i \in 1 .. Len(E) : E[i] \in X /\ \A j \in 1 .. (i - 1) : E[j] \notin X]
Specific(E, M, G, m) ==
  LET S == {t \in M : IsStr(G, t)}
  IN IF S = {} THEN M
     ELSE {FirstIn(E, {t \in S : \A u \in S : m[t] >= m[u]})}
Longest(M, m)    == {t \in M : \A u \in M : m[t] >= m[u]}

Survivors(E, m, G, f) ==
  LET a == TopPrio(Matching(E, m), G)
      b == IF f.ms THEN Specific(E, a, G, m) ELSE a
      c == IF f.lm THEN Longest(b, m) ELSE b
  IN IF f.go /\ c # {} THEN {FirstIn(E, c)} ELSE c
=============================================================================
