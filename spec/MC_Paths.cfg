INIT Init
NEXT Next
INVARIANT Total
INVARIANT InSource
INVARIANT NoRoot
INVARIANT UnderRoot
CHECK_DEADLOCK FALSE
