CONSTANT AsFoundFold = TRUE
INIT Init
NEXT Next
INVARIANT Monitors
CHECK_DEADLOCK FALSE
