------------------------------ MODULE AstBuilder ---------------------------
(***************************************************************************)
(* C10: the value the default builder returns carries the text of every    *)
(* content (regex-matched) token of the input, each exactly once and in    *)
(* input order.                                                            *)
(*   want : the content tokens of the input in input order (from the       *)
(*          harness's own scan of the input text)                          *)
(*   got  : the string literals of the Debug rendering of the value the    *)
(*          generated parser + generated actions returned, in order of     *)
(*          appearance (struct fields are printed in declaration order,    *)
(*          vectors in element order, so order of appearance is the order  *)
(*          in which the AST holds them)                                   *)
(* The inputs use pairwise distinct content tokens, so a lost, duplicated  *)
(* or reordered token is visible.                                          *)
(***************************************************************************)
EXTENDS Integers, Sequences, FiniteSets

Range(s) == {s[i] : i \in 1 .. Len(s)}

AstDefects(want, got, nwant_none, ngot_none) ==
  (IF Range(want) \subseteq Range(got) THEN {} ELSE {<<"content_token_missing", Range(want) \ Range(got)>>})
  \cup (IF Range(got) \subseteq Range(want) THEN {} ELSE {<<"unexpected_text", Range(got) \ Range(want)>>})
  \cup (IF Len(got) = Cardinality(Range(got)) THEN {} ELSE {<<"content_token_duplicated">>})
  \cup (IF Range(want) = Range(got) /\ Len(got) = Len(want) /\ got # want THEN {<<"order_differs", got>>} ELSE {})
  \cup (IF nwant_none < 0 \/ nwant_none = ngot_none THEN {} ELSE {<<"none_count", ngot_none, nwant_none>>})
=============================================================================
