------------------------------ MODULE AstBuilder ---------------------------
(***************************************************************************)
(* C10: the value the default builder returns carries the text of every    *)
(* content (regex-matched) token of the input, each exactly once and in    *)
(* input order.                                                            *)
(*   want : the content tokens of the input in input order (from the       *)
(*          harness's own scan of the input text)                          *)
(*   got  : the string literals of the Debug rendering of the value the    *)
(*          generated parser + generated actions returned, in order of     *)
(*          appearance (struct fields are printed in declaration order,    *)
(*          vectors in element order, so order of appearance is the order  *)
(*          in which the AST holds them)                                   *)
(* The inputs use pairwise distinct content tokens, so a lost, duplicated  *)
(* or reordered token is visible.                                          *)
(***************************************************************************)
EXTENDS Integers, Sequences, FiniteSets

Range(s) == {s[i] : i \in 1 .. Len(s)}

\* all  : every content token of the input in input order
\* want : those of them the value must hold (all but the tokens under a ?= assignment:
\*        the statement lets such a token contribute its presence only; the generator as
\*        it is keeps the text, which the statement does not forbid)
AstDefectsOpt(all, want, got, nwant_none, ngot_none) ==
  (IF Range(want) \subseteq Range(got) THEN {} ELSE {<<"content_token_missing", Range(want) \ Range(got)>>})
  \cup (IF Range(got) \subseteq Range(all) THEN {} ELSE {<<"unexpected_text", Range(got) \ Range(all)>>})
  \cup (IF Len(got) = Cardinality(Range(got)) THEN {} ELSE {<<"content_token_duplicated">>})
  \cup (IF Range(got) \subseteq Range(all) /\ Len(got) = Cardinality(Range(got))
           /\ got # SelectSeq(all, LAMBDA t : t \in Range(got))
        THEN {<<"order_differs", got>>} ELSE {})
  \cup (IF nwant_none < 0 \/ nwant_none = ngot_none THEN {} ELSE {<<"none_count", ngot_none, nwant_none>>})
AstDefects(want, got, nwant_none, ngot_none) == AstDefectsOpt(want, want, got, nwant_none, ngot_none)
=============================================================================
