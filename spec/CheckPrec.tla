------------------------------ MODULE CheckPrec ----------------------------
(***************************************************************************)
(* C05, second sentence (I -> S): recorded parses of the real LR parser on *)
(* annotated operator grammars  E: E op E {assoc, prio} | ... | Tn  are    *)
(* compared with the tree conventional precedence/associativity prescribe  *)
(* (Prec.PrecTree).  The operator table (terminal, priority,               *)
(* associativity, production) is the one the harness intended when it      *)
(* wrote the grammar, so meta-data lost on the way are noticed as well.    *)
(***************************************************************************)
EXTENDS Prec, TLC, Json, IOUtils, FiniteSets

Traces == ndJsonDeserialize(IOEnv.TRACES)
VARIABLE i

OpsOf(r) == [t \in {r.meta.ops[j][1] : j \in 1 .. Len(r.meta.ops)} |->
               LET o == CHOOSE j \in 1 .. Len(r.meta.ops) : r.meta.ops[j][1] = t
               IN [prio |-> r.meta.ops[o][2], assoc |-> r.meta.ops[o][3], p |-> r.meta.ops[o][4]]]

Verdict(r) ==
  LET toks == [j \in 1 .. Len(r.lex) |-> r.lex[j][3]]
      want == PrecTree(toks, OpsOf(r))
      ok   == r.res.k = "ok"
  IN [id |-> r.id, iid |-> r.iid,
      bad |-> IF ~ok THEN {<<"operator_string_rejected", r.res.k>>}
              ELSE IF ExprShape(r.tree) = want THEN {}
              ELSE {<<"tree_differs_from_precedence_tree">>},
      ntok |-> Len(toks)]

Init == i = 0
Next == /\ i < Len(Traces)
        /\ i' = i + 1
        /\ PrintT(<<"VERDICT", ToJson(Verdict(Traces[i + 1]))>>)
=============================================================================
