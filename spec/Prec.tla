-------------------------------- MODULE Prec -------------------------------
(***************************************************************************)
(* ORACLE for the second sentence of C05: the tree conventional operator   *)
(* precedence and associativity prescribe for  n op n op ... n , computed  *)
(* by precedence climbing.  ops maps an operator terminal to               *)
(* [prio, assoc ("left" | "right"), p (production E: E op E)].             *)
(* A tree is "n" or <<p, left, right>>.                                    *)
(***************************************************************************)
EXTENDS Integers, Sequences

\* returns <<tree, index of the next unread token>>
RECURSIVE Climb(_, _, _, _), Loop(_, _, _, _, _)
Climb(toks, ops, i, minp) == Loop(toks, ops, "n", i + 1, minp)
Loop(toks, ops, lhs, j, minp) ==
  IF j > Len(toks) THEN <<lhs, j>>
  ELSE LET op == ops[toks[j]]
       IN IF op.prio < minp THEN <<lhs, j>>
          ELSE LET q == IF op.assoc = "left" THEN op.prio + 1 ELSE op.prio
                   r == Climb(toks, ops, j + 1, q)
               IN Loop(toks, ops, <<op.p, lhs, r[1]>>, r[2], minp)

PrecTree(toks, ops) == Climb(toks, ops, 1, 0)[1]

\* projection of a recorded tree of such a grammar: E: E op E (prod p) | Tn
RECURSIVE ExprShape(_)
ExprShape(n) == IF Len(n.c) = 3 THEN <<n.p, ExprShape(n.c[1]), ExprShape(n.c[3])>> ELSE "n"
=============================================================================
