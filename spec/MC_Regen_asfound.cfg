CONSTANT MaxOps = 4
INIT Init
NEXT Next
INVARIANT AsFoundHolds
INVARIANT NoDup
INVARIANT Idempotent
CHECK_DEADLOCK FALSE
