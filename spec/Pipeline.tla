------------------------------ MODULE Pipeline -----------------------------
(***************************************************************************)
(* OPERATIONAL: generator/mod.rs generate_parser as a staged pipeline.     *)
(* A document is described by the attributes the stages look at; each      *)
(* stage either passes the document on or stops with a diagnostic class.   *)
(* The code's partial operations (unwrap/expect/todo!/assert!/unreachable! *)
(* on constructs the grammar-of-grammars accepts) are NOT part of the      *)
(* specified behaviour: the property (C16) is that the outcome is always   *)
(* "ok" or "err", and for a document with one injected defect the class    *)
(* is the documented one.                                                  *)
(*                                                                         *)
(* doc = [syntax, idents, terminals, symbols, selfrec, recognizers,        *)
(*        productive, conflicts : BOOLEAN (TRUE = fine / no conflicts)]    *)
(***************************************************************************)
EXTENDS Integers, Sequences

Stages == <<"parse", "build_idents", "build_inline_terminals", "build_references",
            "check_recognizers", "first_sets", "conflicts", "emit">>

\* outcome of one stage on a document: "" = pass, otherwise the diagnostic class
StageOutcome(stage, doc, algo, lexer) ==
  CASE stage = "parse"                  -> IF doc.syntax THEN "" ELSE "syntax"
    [] stage = "build_idents"           -> IF doc.idents THEN "" ELSE "identifier"
    [] stage = "build_inline_terminals" -> IF doc.terminals THEN "" ELSE "undef_terminal"
    [] stage = "build_references"       -> IF ~doc.symbols THEN "undef_symbol"
                                           ELSE IF ~doc.selfrec THEN "recursion" ELSE ""
    [] stage = "check_recognizers"      -> IF lexer = "default" /\ ~doc.recognizers THEN "recognizer" ELSE ""
    [] stage = "first_sets"             -> IF doc.productive THEN "" ELSE "recursion"
    [] stage = "conflicts"              -> IF algo = "lr" /\ ~doc.conflicts THEN "conflicts" ELSE ""
    [] OTHER                            -> ""

RECURSIVE Run(_, _, _, _)
Run(i, doc, algo, lexer) ==
  IF i > Len(Stages) THEN [outcome |-> "ok", class |-> ""]
  ELSE LET c == StageOutcome(Stages[i], doc, algo, lexer)
       IN IF c = "" THEN Run(i + 1, doc, algo, lexer) ELSE [outcome |-> "err", class |-> c]

Predict(doc, algo, lexer) == Run(1, doc, algo, lexer)
=============================================================================
