INIT Init
NEXT Next
INVARIANT Faithful
CHECK_DEADLOCK FALSE
