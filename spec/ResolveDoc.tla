----------------------------- MODULE ResolveDoc ----------------------------
(***************************************************************************)
(* ORACLE for C05: the documented conflict-resolution rule as a predicate  *)
(* on ONE (state, terminal) cell.                                          *)
(*                                                                         *)
(* Candidates of a cell (from the raw dump, nothing resolved):             *)
(*   shift  [k |-> "S", prio]   prio = max priority of the productions     *)
(*                              that have the terminal after the dot in    *)
(*                              this state; Accept counts as a shift of    *)
(*                              the default priority 10                    *)
(*   reduce [k |-> "R", p, n, prio, assoc, empty, nops, nopse]             *)
(* ctx = [tassoc, ps, pse, algo]: the terminal's associativity, the two    *)
(* shift-preference settings, "lr" | "glr".                                *)
(*                                                                         *)
(* a is removed iff some other candidate beats it: by priority; then by    *)
(* associativity (terminal over production; left/reduce keeps the          *)
(* reduction, right/shift keeps the shift); then by shift preference       *)
(* unless nops / nopse.  The statement is silent on LR's preference of a   *)
(* non-empty over an empty reduction of equal priority: both outcomes are  *)
(* accepted (EmptyTie).  For three or more candidates only what the        *)
(* statement fixes is demanded (pairwise dominance envelope).              *)
(***************************************************************************)
EXTENDS Table

Eff(r, ctx) == IF ctx.tassoc # "none" THEN ctx.tassoc ELSE r.assoc     \* terminal overrides
ShiftPref(r, ctx) == \/ r.empty /\ ctx.pse /\ ~r.nopse
                     \/ ~r.empty /\ ctx.ps /\ ~r.nops

\* "a is kept in preference to b"
Beats(a, b, ctx) ==
  \/ a.k = "R" /\ b.k = "S" /\ (a.prio > b.prio \/ (a.prio = b.prio /\ Eff(a, ctx) = "left"))
  \/ a.k = "S" /\ b.k = "R" /\ (a.prio > b.prio \/
                                  (a.prio = b.prio /\ (Eff(b, ctx) = "right" \/
                                                        (Eff(b, ctx) = "none" /\ ShiftPref(b, ctx)))))
  \/ a.k = "R" /\ b.k = "R" /\ a.prio > b.prio

EmptyTie(a, b, ctx) == ctx.algo = "lr" /\ a.k = "R" /\ b.k = "R" /\ a.prio = b.prio
                       /\ ~a.empty /\ b.empty

Kept2(C, ctx) == {c \in C : ~\E d \in C : Beats(d, c, ctx)}

OkCell(C, K, ctx) ==
  /\ K \subseteq C
  /\ \A c \in K, d \in K : ~Beats(d, c, ctx)
  /\ \A c \in C \ K : \E d \in C : Beats(d, c, ctx) \/ EmptyTie(d, c, ctx)
  /\ (C # {} => K # {})

CellHolds(C, K, ctx) ==
  IF Cardinality(C) <= 2
  THEN K = Kept2(C, ctx) \/ (\E a, b \in C : EmptyTie(a, b, ctx) /\ K = C \ {b})
  ELSE OkCell(C, K, ctx)

(* ---- candidates of a cell, read from a dumped table -------------------- *)
\* Raw: raw dump (all candidates); Res: resolved dump of the same grammar and table
\* type (same state numbering); meta-data are read from Res.
ShiftPrio(Res, q, t) ==
  LET ps == {Prod(Res, it.p).prio : it \in {x \in TItems(Res, q) :
                                               x.d < RhsLen(Res, x.p) /\ RhsAt(Res, x.p, x.d) = t}}
  IN IF ps = {} THEN 10 ELSE CHOOSE x \in ps : \A y \in ps : y <= x

Cand(Res, q, t, a) ==
  IF a.k = "r"
  THEN [k |-> "R", p |-> a.p, n |-> a.n, prio |-> Prod(Res, a.p).prio, assoc |-> Prod(Res, a.p).assoc,
        empty |-> RhsLen(Res, a.p) = 0, nops |-> Prod(Res, a.p).nops, nopse |-> Prod(Res, a.p).nopse]
  ELSE [k |-> "S", p |-> -1, n |-> -1, prio |-> IF a.k = "a" THEN 10 ELSE ShiftPrio(Res, q, t),
        assoc |-> "none", empty |-> FALSE, nops |-> FALSE, nopse |-> FALSE]

Cands(Res, q, t, cell) == {Cand(Res, q, t, a) : a \in cell}

BadCells(Raw, Res, ctx0) ==
  UNION {{<<q, t, Cands(Res, q, t, TCell(Raw, q, t)), Cands(Res, q, t, TCell(Res, q, t))>> :
             t \in {u \in Terms(Res) :
                      ~CellHolds(Cands(Res, q, u, TCell(Raw, q, u)), Cands(Res, q, u, TCell(Res, q, u)),
                                 [ctx0 EXCEPT !.tassoc = Res.terms[u + 1].assoc])}}
         : q \in TStates(Res)}

\* number of cells in which some disambiguation rule actually decided something
Exercised(Raw, Res) ==
  Cardinality({<<q, t>> \in TStates(Res) \X Terms(Res) :
                 Cardinality(TCell(Raw, q, t)) > 1 /\ TCell(Raw, q, t) # TCell(Res, q, t)})
=============================================================================
