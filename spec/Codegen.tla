------------------------------- MODULE Codegen -----------------------------
(***************************************************************************)
(* C08: the generated parser source encodes exactly the computed table.    *)
(* Both emitted layouts (generator/arrays.rs: nested arrays padded to      *)
(* MAX_ACTIONS / MAX_RECOGNIZERS and read back with take_while/map_while;  *)
(* generator/functions.rs: one function per state with a match and a       *)
(* catch-all arm, goto_invalid for states without gotos) implement the     *)
(* same three query functions.  Q is what the GENERATED code answered for  *)
(* every (state, token), (state, nonterminal) and state; T the table the   *)
(* compiler computed (hook dump, same settings).                           *)
(***************************************************************************)
EXTENDS Table

ActTuple(a) == <<a.k, a.s, a.p, a.n>>
TCellSeq(T, q, t) == [j \in 1 .. Len(T.states[q + 1].actions[t + 1]) |-> ActTuple(T.states[q + 1].actions[t + 1][j])]
TSorted(T, q) == [j \in 1 .. Len(T.states[q + 1].sorted) |-> <<T.states[q + 1].sorted[j][1], T.states[q + 1].sorted[j][2]>>]

CodegenDefects(Q, T, lm, go) ==
  LET Qs == TStates(T)
      shape == IF Len(Q.actions) = NStates(T) /\ Len(Q.gotos) = NStates(T) /\ Len(Q.expected) = NStates(T)
               THEN {} ELSE {<<"state_count", Len(Q.actions), NStates(T)>>}
  IN IF shape # {} THEN shape
     ELSE UNION {{<<"action_differs", q, t>> :
                    t \in {u \in Terms(T) : [j \in 1 .. Len(Q.actions[q + 1][u + 1]) |->
                                                <<Q.actions[q + 1][u + 1][j][1], Q.actions[q + 1][u + 1][j][2],
                                                  Q.actions[q + 1][u + 1][j][3], Q.actions[q + 1][u + 1][j][4]>>]
                                             # TCellSeq(T, q, u)}} : q \in Qs}
          \cup UNION {{<<"goto_differs", q, A>> :
                         A \in {B \in NonTerms(T) : TGoto(T, q, B) >= 0 /\ Q.gotos[q + 1][B - T.nterm + 1] # TGoto(T, q, B)}}
                      : q \in Qs}
          \cup {<<"expected_differs", q>> :
                  q \in {x \in Qs : [j \in 1 .. Len(Q.expected[x + 1]) |-> <<Q.expected[x + 1][j][1], Q.expected[x + 1][j][2]>>]
                                      # TSorted(T, x)}}
          \cup (IF Q.lm = lm THEN {} ELSE {<<"longest_match_flag", Q.lm, lm>>})
          \cup (IF Q.go = go THEN {} ELSE {<<"grammar_order_flag", Q.go, go>>})
=============================================================================
