INIT Init
NEXT Next
INVARIANT Total
INVARIANT Single
CHECK_DEADLOCK FALSE
