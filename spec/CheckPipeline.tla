---------------------------- MODULE CheckPipeline --------------------------
(***************************************************************************)
(* C16 (I -> S): recorded outcomes of Settings::process_grammar (under     *)
(* catch_unwind) and of the rcomp binary on generated documents.  For a    *)
(* document whose attributes are known by construction the outcome must be *)
(* Pipeline.Predict; for arbitrary text (known = FALSE) it must only be    *)
(* "ok" or "err".                                                          *)
(***************************************************************************)
EXTENDS Pipeline, TLC, Json, IOUtils

Recs == ndJsonDeserialize(IOEnv.RECS)
VARIABLE i

Verdict(r) ==
  LET total == r.outcome \in {"ok", "err"}
      want == Predict(r.doc, r.algo, r.lexer)
      bad == (IF total THEN {} ELSE {<<"compiler_aborts", r.outcome, r.msg>>})
             \cup (IF ~r.known \/ ~total THEN {}
                   ELSE IF r.outcome = want.outcome /\ (r.outcome = "ok" \/ r.class = want.class) THEN {}
                   ELSE {<<"diagnostic_differs", r.outcome, r.class, want.outcome, want.class>>})
  IN [id |-> r.id, via |-> r.via, bad |-> bad, outcome |-> r.outcome, class |-> r.class]

Init == i = 0
Next == /\ i < Len(Recs)
        /\ i' = i + 1
        /\ PrintT(<<"VERDICT", ToJson(Verdict(Recs[i + 1]))>>)
=============================================================================
