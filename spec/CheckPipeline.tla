---------------------------- MODULE CheckPipeline --------------------------
(***************************************************************************)
(* C16 (I -> S): recorded outcomes of Settings::process_grammar (under     *)
(* catch_unwind) and of the rcomp binary on generated documents.  For a    *)
(* document whose attributes are known by construction the outcome must be *)
(* Pipeline.Predict; for arbitrary text (known = FALSE) it must only be    *)
(* "ok" or "err".  Path cases (r.path) vary where the grammar is, from     *)
(* where it is named and where the output goes: same requirement, and the  *)
(* place of the output is compared with Paths.Predict.                     *)
(***************************************************************************)
EXTENDS Pipeline, TLC, Json, IOUtils
PT == INSTANCE Paths

Recs == ndJsonDeserialize(IOEnv.RECS)
VARIABLE i

Verdict(r) ==
  LET total == r.outcome \in {"ok", "err"}
      want == Predict(r.doc, r.algo, r.lexer)
      bad == (IF total THEN {} ELSE {<<"compiler_aborts", r.outcome, r.msg>>})
             \cup (IF ~r.known \/ ~total THEN {}
                   ELSE IF r.outcome = want.outcome /\ (r.outcome = "ok" \/ r.class = want.class) THEN {}
                   ELSE {<<"diagnostic_differs", r.outcome, r.class, want.outcome, want.class>>})
      \* path cases: the record says from where, on which grammar path, with which root dir
      \* and output root the compiler ran and where the parser file was found afterwards
      \* (Paths.Predict; a difference in PLACE is a divergence of the model, an abort is C16)
      where == IF "tree" \in DOMAIN r
               THEN LET w == PT!DirPredict(r.tree.root, r.tree.out, r.tree.files, r.tree.rootx)
                        got == {r.found[k] : k \in 1 .. Len(r.found)}
                    IN IF ~total THEN {}
                       ELSE IF r.outcome # "ok" THEN {<<"outcome", r.outcome, "ok">>}
                       ELSE IF got # w THEN {<<"places", got \ w, w \ got>>} ELSE {}
               ELSE IF "path" \notin DOMAIN r \/ ~total \/ want.outcome # "ok" THEN {}
               ELSE LET w == PT!Predict(r.path.cwd, r.path.out, r.path.root, r.path.g)
                    IN IF w.outcome # r.outcome THEN {<<"outcome", r.outcome, w.outcome>>}
                       ELSE IF r.outcome = "ok" /\ r.found # <<w.at>> THEN {<<"place", r.found, w.at>>}
                       ELSE {}
  IN [id |-> r.id, via |-> r.via, bad |-> bad, outcome |-> r.outcome, class |-> r.class, where |-> where]

Init == i = 0
Next == /\ i < Len(Recs)
        /\ i' = i + 1
        /\ PrintT(<<"VERDICT", ToJson(Verdict(Recs[i + 1]))>>)
=============================================================================
