------------------------------ MODULE TraceLR ------------------------------
(***************************************************************************)
(* TRACE VALIDATION of the real LRParser (I -> S).                         *)
(*                                                                         *)
(* Input: DUMPS (tables dumped by the real compiler) and TRACES (one       *)
(* record per parse: input bytes, the harness's own lexeme list, the       *)
(* shift/reduce callbacks the real parser made, its result and tree).      *)
(* One TLC state per recorded event:                                       *)
(*   - every event is replayed through LRRuntime's step relation over the  *)
(*     dumped table; the first event that is not the specified step is     *)
(*     remembered as a DIVERGENCE (never a verdict by itself);             *)
(*   - when a case ends, the property monitors (TreeMon, Earley) are       *)
(*     evaluated on what was recorded and a VERDICT record is printed.     *)
(* The lookahead of a reduce event is not logged; it is inferred as the    *)
(* kind of the next shifted token (STOP at the end).                       *)
(***************************************************************************)
EXTENDS LRRuntime, TreeMon, TLC, Json, IOUtils

Dumps  == ndJsonDeserialize(IOEnv.DUMPS)
Traces == ndJsonDeserialize(IOEnv.TRACES)
Ctxs   == [g \in 1 .. Len(Dumps) |-> Ctx(Dumps[g].t)]

VARIABLES ci, k, cf, div
vars == <<ci, k, cf, div>>

Case == Traces[ci]
Tab  == Dumps[Case.g].t

\* kind of the first shift event at or after index j (0 = STOP if none)
RECURSIVE NextShiftKind(_, _)
NextShiftKind(ev, j) ==
  IF j > Len(ev) THEN 0 ELSE IF ev[j].k = "s" THEN ev[j].t ELSE NextShiftKind(ev, j + 1)

(* ---- replay of one event through the operational module ----------------- *)
EventOK(T, c, ev, j) ==
  LET e == ev[j]
  IN IF e.k = "s"
     THEN LET a == FirstAction(T, c, e.t)
          IN /\ LexerFinds(T, c, e.t)
             /\ a.k = "s"
     ELSE LET a == FirstAction(T, c, NextShiftKind(ev, j))
              sp == ReduceSpan(c, e.n)
          IN /\ a.k = "r" /\ a.p = e.p /\ a.n = e.n
             /\ e.n < Len(c.stack)
             /\ sp.s = e.s /\ sp.e = e.e

Apply(T, c, e) ==
  IF e.k = "s" THEN [c EXCEPT !.stack = Append(@, [st |-> FirstAction(T, c, e.t).s, s |-> e.s, e |-> e.e]),
                               !.cs = e.s, !.ce = e.e, !.pos = e.e, !.nred = 0]
  ELSE ReduceStep(T, c, e.p, e.n)

(* ---- case-level monitors ------------------------------------------------- *)
AllLexed(r) == \A i \in 1 .. Len(r.lex) : r.lex[i][3] >= 0

Monitors(r, prev, prev2) ==
  LET T == Dumps[r.g].t
      C == Ctxs[r.g]
      w == LexKinds(r.lex)
      ok == r.res.k = "ok"
      root == 0
      sent == AllLexed(r) /\ Sentence(C, w, root)
      vl == ViableLen(C, w, root)
      nleaves == IF ok THEN NLeaves(r.tree) ELSE 0
      wsl == T.augl < 0
      \* C01 / C12 first half: Ok iff sentence (full parse)
      nodis == Dumps[r.g].meta.nodis
      c01 == IF r.partial THEN {}
             ELSE IF ok /\ ~sent THEN {<<"accepted_nonsentence">>}
             ELSE IF nodis /\ sent /\ ~ok THEN {<<"rejected_sentence", r.res.k>>}
             ELSE {}
      \* C02: Ok => derivation of the consumed input
      c02 == IF ~ok THEN {}
             ELSE IF r.partial
                  THEN (IF nleaves <= Len(w) THEN C02Tree(C, r.tree, r.lex, nleaves)
                        ELSE {<<"more_leaves_than_tokens">>})
                  ELSE C02Tree(C, r.tree, r.lex, Len(w))
      \* C02: enabling partial parse never changes an accepted input's result
      c02p == IF r.partial /\ prev.iid = r.iid /\ prev.id = r.id /\ ~prev.partial /\ prev.res.k = "ok"
              THEN (IF ok /\ r.tree = prev.tree THEN {} ELSE {<<"partial_changes_result", r.res.k>>})
              ELSE {}
      \* C12: error position = start of the first token that cannot continue
      expOff == IF vl < Len(w) THEN r.lex[vl + 1][1] ELSE Len(r.bytes)
      \* scope of the offset part: a reduced grammar (with an unproductive symbol no
      \* token "continues a sentence", which is the compiler's C16 concern, not the parser's)
      \* (a user lexer that ignores the expected tokens: C15 only demands an error result)
      c12 == IF r.res.k # "err" \/ r.partial \/ ~nodis \/ ~Reduced(T, C.P) \/ r.meta.anylex THEN {}
             ELSE (IF r.res.o = expOff THEN {} ELSE {<<"error_offset", r.res.o, expOff>>})
                  \cup (IF PosOK(r.bytes, r.res.o, r.res.l, r.res.c) THEN {}
                        ELSE {<<"error_linecol", r.res.o, r.res.l, r.res.c>>})
                  \cup (IF r.res.nexp >= 1 THEN {} ELSE {<<"no_expected_tokens">>})
      c13 == IF ok THEN C13TreeWs(r.bytes, r.tree, wsl) ELSE {}
      \* C14, second sentence: the same tokens with other layout between them give the same tree
      \* (prev is then the plain rendering of the same token string)
      \* (records come as plain/full, plain/partial, layout/full, layout/partial: the partner of
      \* a layout record is the plain record with the same partial flag, one or two records back)
      Partner(x) == x.iid = r.iid /\ x.id = r.id /\ x.partial = r.partial /\ "twin" \notin DOMAIN x.meta
      tw == IF Partner(prev) THEN prev ELSE prev2
      twin == "twin" \in DOMAIN r.meta /\ r.meta.twin = "layout" /\ Partner(tw)
      c14t == IF ~twin \/ tw.res.k \notin {"ok", "err"} \/ r.res.k \notin {"ok", "err"} THEN {}
              ELSE IF tw.res.k # r.res.k THEN {<<"layout_changes_result", tw.res.k, r.res.k>>}
              ELSE IF ok /\ ShapeK(tw.tree) # ShapeK(r.tree) THEN {<<"layout_changes_tree">>}
              ELSE {}
      c14 == (IF ok /\ ~r.partial THEN C14Tree(r.bytes, r.tree, wsl) ELSE {}) \cup c14t
      c15 == IF r.res.k \in {"ok", "err"} THEN {} ELSE {<<r.res.k, r.res.msg>>}
  IN [c01 |-> c01, c02 |-> c02 \cup c02p, c12 |-> c12, c13 |-> c13, c14 |-> c14, c15 |-> c15,
      sent |-> sent, ok |-> ok, vl |-> vl, ntok |-> Len(w)]

(* ---- the trace machine ----------------------------------------------------- *)
Dummy == InitCfg(0, 0)
Init == ci = 0 /\ k = 0 /\ cf = Dummy /\ div = ""

\* finish the current case (print its verdict) and move to the next one
NextCase ==
  /\ ci < Len(Traces)
  /\ (IF ci = 0 THEN TRUE ELSE k > Len(Case.ev))
  /\ ci' = ci + 1
  /\ k' = 1
  /\ cf' = InitCfg(0, 0)
  /\ div' = ""
  /\ LET r == Traces[ci + 1]
         prev == IF ci >= 1 THEN Traces[ci] ELSE r
         prev2 == IF ci >= 2 THEN Traces[ci - 1] ELSE r
     IN PrintT(<<"VERDICT", ToJson([id |-> r.id, iid |-> r.iid, g |-> r.g, partial |-> r.partial,
                                     nev |-> Len(r.ev), mon |-> Monitors(r, prev, prev2)])>>)

\* the layout parser is not logged; that it ran is inferred from the logged context
\* position having moved past the end of the last shifted token
WithLayout(c, e) ==
  IF Tab.augl >= 0 /\ e.k = "r" /\ e.cp > c.ce THEN LayoutParsed(c, e.cp) ELSE c

Event ==
  /\ ci >= 1
  /\ k <= Len(Case.ev)
  /\ LET c1 == WithLayout(cf, Case.ev[k])
         good == cf.status = "run" /\ EventOK(Tab, c1, Case.ev, k)
     IN /\ div' = IF div = "" /\ ~good
                  THEN ToJson([id |-> Case.id, iid |-> Case.iid, at |-> k, ev |-> Case.ev[k].k]) ELSE div
        /\ cf' = IF cf.status = "run" /\ (Case.ev[k].k = "r" \/ FirstAction(Tab, cf, Case.ev[k].t).k = "s")
                 THEN Apply(Tab, c1, Case.ev[k]) ELSE [cf EXCEPT !.status = "lost"]
        /\ (IF div = "" /\ ~good
            THEN PrintT(<<"DIVERGENCE", ToJson([id |-> Case.id, iid |-> Case.iid, at |-> k, ev |-> Case.ev[k].k])>>)
            ELSE TRUE)
  /\ k' = k + 1
  /\ ci' = ci

Next == NextCase \/ Event
Spec == Init /\ [][Next]_vars

\* accepted traces end with exactly the start state and the start symbol's state on the stack
=============================================================================
