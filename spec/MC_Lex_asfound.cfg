CONSTANT NTerms = 3
INIT Init
NEXT Next
INVARIANT AgreeAsFound
CHECK_DEADLOCK FALSE
