------------------------------- MODULE Builder -----------------------------
(***************************************************************************)
(* C09: the grammar the compiler analyses vs the grammar document the user *)
(* wrote (grammar/builder.rs).                                             *)
(*                                                                         *)
(* doc (abstract document, known to the harness that rendered the text):   *)
(*   rules : sequence of [name, meta, alts]                                *)
(*   alts  : sequence of [syms, meta];  sym = [ref, str, op, sep]          *)
(*           ref = symbol name or, if str, the inline string; op in        *)
(*           {"", "?", "*", "+"}; sep = separator symbol name or ""        *)
(*           sym also carries name ("" = no assignment) and bool (?=)      *)
(*   meta  : [prio (-1 = not given), assoc ("" | "left" | "right"),        *)
(*           nops, nopse : BOOLEAN, kind ("" = not given),                 *)
(*           user : sequence of <<key, value as text>>]                    *)
(*   rules also carry ann ("" | annotation name)                           *)
(*   terms : sequence of [name, str ("" for regex terminals), prio, assoc, *)
(*           user]                                                         *)
(* G is the grammar dumped by the hook after building.                     *)
(*                                                                         *)
(* Each use of ?, *, + denotes the LANGUAGE of its documented expansion    *)
(*   X?  =  X | EMPTY          X+ = X1: X1 X | X        X* = X1 | EMPTY    *)
(*   X+[S] = X1: X1 S X | X                                                *)
(* so a different but equivalent helper shape passes; languages are        *)
(* compared as sets of terminal strings up to length K.                    *)
(***************************************************************************)
EXTENDS Grammar

K == 4

NtByName(G, n) == G.nterm + (CHOOSE i \in 1 .. Len(G.nonterms) : G.nonterms[i].name = n) - 1
HasNt(G, n) == \E i \in 1 .. Len(G.nonterms) : G.nonterms[i].name = n
TermByName(G, n) == (CHOOSE i \in 1 .. Len(G.terms) : G.terms[i].name = n) - 1
HasTerm(G, n) == \E i \in 1 .. Len(G.terms) : G.terms[i].name = n
TermByStr(G, s) == (CHOOSE i \in 1 .. Len(G.terms) : G.terms[i].rk = "str" /\ G.terms[i].rs = s) - 1
HasStr(G, s) == \E i \in 1 .. Len(G.terms) : G.terms[i].rk = "str" /\ G.terms[i].rs = s
SymByName(G, n) == IF HasTerm(G, n) THEN TermByName(G, n) ELSE NtByName(G, n)

(* ---- bounded languages ------------------------------------------------- *)
Short(S) == {w \in S : Len(w) <= K}
Cat(A, B) == Short({a \o b : a \in A, b \in B})
RECURSIVE CatSeq(_, _, _)
CatSeq(L, rhs, i) == IF i > Len(rhs) THEN {<<>>} ELSE Cat(L[rhs[i]], CatSeq(L, rhs, i + 1))
RECURSIVE LangFix(_, _)
LangFix(G, L) ==
  LET L2 == [s \in Symbols(G) |->
               IF IsTerm(G, s) THEN {<<s>>}
               ELSE L[s] \cup UNION {CatSeq(L, Rhs(G, p), 1) : p \in ProdsOf(G, s)}]
  IN IF L2 = L THEN L ELSE LangFix(G, L2)
Lang(G) == LangFix(G, [s \in Symbols(G) |-> IF IsTerm(G, s) THEN {<<s>>} ELSE {}])

\* x1 [s] x2 [s] ... xn, n >= 1, bounded
RECURSIVE PlusFix(_, _, _)
PlusFix(X, S, acc) ==
  LET a2 == acc \cup Cat(Cat(acc, S), X)
  IN IF a2 = acc THEN acc ELSE PlusFix(X, S, a2)
PlusLang(X, S) == PlusFix(X, S, Short(X))

DocLang(L, x, op, sepL) ==
  CASE op = "?" -> L[x] \cup {<<>>}
    [] op = "+" -> PlusLang(L[x], sepL)
    [] op = "*" -> PlusLang(L[x], sepL) \cup {<<>>}
    [] OTHER    -> L[x]

(* ---- the monitors --------------------------------------------------------- *)
Own(pm, rm) ==
  [prio  |-> IF pm.prio >= 0 THEN pm.prio ELSE IF rm.prio >= 0 THEN rm.prio ELSE 10,
   assoc |-> IF pm.assoc # "" THEN pm.assoc ELSE IF rm.assoc # "" THEN rm.assoc ELSE "none",
   nops  |-> pm.nops \/ rm.nops,
   nopse |-> pm.nopse \/ rm.nopse,
   kind  |-> IF pm.kind # "" THEN pm.kind ELSE rm.kind]

RealSyms(alt) == SelectSeq(alt.syms, LAMBDA s : ~(~s.str /\ s.ref = "EMPTY"))
BaseSym(G, s) == IF s.str THEN TermByStr(G, s.ref) ELSE SymByName(G, s.ref)

BuilderDefects(doc, G) ==
  LET L == Lang(G)
      rules == doc.rules
      \* the dumped productions of rule r, in order
      prodsOf(r) == G.nonterms[NtByName(G, rules[r].name) - G.nterm + 1].prods
      uses == {<<r, a, i>> \in (1 .. Len(rules)) \X (1 .. 6) \X (1 .. 6) :
                 a <= Len(rules[r].alts) /\ i <= Len(RealSyms(rules[r].alts[a]))}
      symOf(u) == RealSyms(rules[u[1]].alts[u[2]])[u[3]]
      dumped(u) == Rhs(G, prodsOf(u[1])[u[2]])[u[3]]
      start == (IF G.start = NtByName(G, rules[1].name) THEN {} ELSE {<<"start_symbol_is_not_first_rule">>})
      count == {<<"production_count", rules[r].name>> :
                  r \in {x \in 1 .. Len(rules) : Len(prodsOf(x)) # Len(rules[x].alts)}}
      shape == {<<"production_length", rules[ra[1]].name, ra[2]>> :
                  ra \in {x \in (1 .. Len(rules)) \X (1 .. 6) :
                            x[2] <= Len(rules[x[1]].alts) /\ x[2] <= Len(prodsOf(x[1])) /\
                            RhsLen(G, prodsOf(x[1])[x[2]]) # Len(RealSyms(rules[x[1]].alts[x[2]]))}}
      okUses == {u \in uses : u[2] <= Len(prodsOf(u[1])) /\ u[3] <= RhsLen(G, prodsOf(u[1])[u[2]])}
      plain == {<<"symbol_differs", rules[u[1]].name, u[2], u[3]>> :
                  u \in {x \in okUses : symOf(x).op = "" /\ dumped(x) # BaseSym(G, symOf(x))}}
      \* classified separately: the same symbol is repeated elsewhere with a different
      \* separator (or with none) and the two uses were given one helper rule
      acrossSep(x) == \E y \in okUses : /\ BaseSym(G, symOf(y)) = BaseSym(G, symOf(x))
                                         /\ symOf(y).op \in {"*", "+"} /\ symOf(x).op \in {"*", "+"}
                                         /\ symOf(y).sep # symOf(x).sep
      sugar == {<<IF acrossSep(u) THEN "helper_shared_across_separators" ELSE "sugar_language_differs",
                  rules[u[1]].name, u[2], u[3], symOf(u).op, symOf(u).sep>> :
                  u \in {x \in okUses : symOf(x).op # "" /\
                           L[dumped(x)] # DocLang(L, BaseSym(G, symOf(x)), symOf(x).op,
                                                  IF symOf(x).sep = "" THEN {<<>>}
                                                  ELSE L[SymByName(G, symOf(x).sep)])}}
      share == {<<"identical_uses_do_not_share_helper", symOf(u).ref, symOf(u).op, symOf(u).sep>> :
                  u \in {x \in okUses : symOf(x).op # "" /\
                           \E y \in okUses : symOf(y) = symOf(x) /\ dumped(y) # dumped(x)}}
      metas == {<<"meta_data_differs", rules[ra[1]].name, ra[2]>> :
                  ra \in {x \in (1 .. Len(rules)) \X (1 .. 6) :
                            x[2] <= Len(rules[x[1]].alts) /\ x[2] <= Len(prodsOf(x[1])) /\
                            LET p == Prod(G, prodsOf(x[1])[x[2]])
                                w == Own(rules[x[1]].alts[x[2]].meta, rules[x[1]].meta)
                            IN ~(p.prio = w.prio /\ p.assoc = w.assoc /\ p.nops = w.nops
                                 /\ p.nopse = w.nopse /\ p.kind = w.kind)}}
      \* named / bool assignments: the name and the ?= flag stay with the symbol they were
      \* written on (EMPTY contributes nothing, so positions are those of RealSyms)
      assigns == {<<"assignment_differs", rules[u[1]].name, u[2], u[3], symOf(u).name>> :
                    u \in {x \in okUses :
                              LET p == Prod(G, prodsOf(x[1])[x[2]])
                              IN ~(p.names[x[3]] = symOf(x).name /\ p.bools[x[3]] = symOf(x).bool)}}
      \* user meta-data: the production's own keys, plus the rule's keys it does not give itself
      pairs(sq) == {<<sq[i][1], sq[i][2]>> : i \in 1 .. Len(sq)}
      keys(sq) == {sq[i][1] : i \in 1 .. Len(sq)}
      wantUser(pm, rm) == pairs(pm.user) \cup {kv \in pairs(rm.user) : kv[1] \notin keys(pm.user)}
      users == {<<"user_meta_data_differs", rules[ra[1]].name, ra[2]>> :
                  ra \in {x \in (1 .. Len(rules)) \X (1 .. 6) :
                            x[2] <= Len(rules[x[1]].alts) /\ x[2] <= Len(prodsOf(x[1])) /\
                            pairs(Prod(G, prodsOf(x[1])[x[2]]).metav)
                              # wantUser(rules[x[1]].alts[x[2]].meta, rules[x[1]].meta)}}
      anns == {<<"annotation_differs", rules[r].name>> :
                 r \in {x \in 1 .. Len(rules) :
                          G.nonterms[NtByName(G, rules[x].name) - G.nterm + 1].ann # rules[x].ann}}
      \* meta-data of terminals (priority 10 and no associativity unless given)
      tmetas == {<<"terminal_meta_data_differs", doc.terms[i].name>> :
                   i \in {j \in 1 .. Len(doc.terms) :
                            LET d == doc.terms[j]
                            IN HasTerm(G, d.name) /\
                               LET t == G.terms[TermByName(G, d.name) + 1]
                               IN ~(t.prio = (IF d.prio >= 0 THEN d.prio ELSE 10)
                                    /\ t.assoc = (IF d.assoc = "" THEN "none" ELSE d.assoc)
                                    /\ pairs(t.metav) = pairs(d.user))}}
  IN start \cup count \cup shape \cup plain \cup sugar \cup share \cup metas
     \cup assigns \cup users \cup anns \cup tmetas
=============================================================================
