---------------------------- MODULE CheckTables ----------------------------
(***************************************************************************)
(* Static checks on tables dumped from the real compiler (I -> S binding   *)
(* for C04, and RN completeness for C03).  One TLC state per dump; each    *)
(* step evaluates the oracle predicates on the dump and prints a verdict   *)
(* record as JSON.  The verdict is computed here, by TLC; the orchestrator *)
(* only collects the lines.                                                *)
(***************************************************************************)
EXTENDS Automaton, TLC, Json, IOUtils

Dumps == ndJsonDeserialize(IOEnv.DUMPS)
VARIABLE i
Mode == IOEnv.MODE          \* "full": C04 oracles + TableWF;  "wf": TableWF only
\* the grammar the compiler built vs the grammar the user wrote (carried next to the text as
\* d.meta.abs = <<<<rule name, <<alternatives as sequences of symbol names>>>>, ...>>): every
\* oracle below works on the BUILT grammar, so the two have to be the same first
SymName(T, x) == IF x < T.nterm THEN T.terms[x + 1].name ELSE T.nonterms[x - T.nterm + 1].name
AbsDiff(T, abs) ==
  UNION {
    LET name == abs[r][1]
        alts == abs[r][2]
        S == {k \in 1 .. Len(T.nonterms) : T.nonterms[k].name = name}
    IN IF S = {} THEN {<<"rule_missing", name>>}
       ELSE LET nt == T.nonterms[CHOOSE k \in S : TRUE]
            IN IF Len(nt.prods) # Len(alts) THEN {<<"production_count", name, Len(nt.prods), Len(alts)>>}
               ELSE {<<"production_differs", name, a>> :
                       a \in {x \in 1 .. Len(alts) :
                                LET rhs == T.prods[nt.prods[x] + 1].rhs
                                IN [j \in 1 .. Len(rhs) |-> SymName(T, rhs[j])] # alts[x]}}
    : r \in 1 .. Len(abs)}
  \cup (IF Len(abs) >= 1 /\ SymName(T, T.start) # abs[1][1] THEN {<<"start_rule", SymName(T, T.start)>>} ELSE {})

TwinDiff(T, U) ==
  (IF Len(T.prods) # Len(U.prods) THEN {<<"production_count", Len(T.prods), Len(U.prods)>>}
   ELSE {<<"production", k - 1>> : k \in {j \in 1 .. Len(T.prods) :
            T.prods[j].lhs # U.prods[j].lhs \/ T.prods[j].rhs # U.prods[j].rhs}})
  \cup (IF Len(T.states) # Len(U.states) THEN {<<"state_count", Len(T.states), Len(U.states)>>}
        ELSE {<<"state", k - 1>> : k \in {j \in 1 .. Len(T.states) :
                 \/ T.states[j].items # U.states[j].items
                 \/ T.states[j].actions # U.states[j].actions
                 \/ T.states[j].gotos # U.states[j].gotos}})

Verdict(d) ==
  LET T == d.t
      C == Ctx(T)
      type == d.cfg.tt
      full == Mode = "full"
      disc == IF full THEN Discrepancies(T, C, type) ELSE {}
      conf == TConflictCells(T)
      lalr == IF full THEN LALRConflictFree(T, C) ELSE FALSE
  IN [id |-> d.id, tt |-> type, nstates |-> NStates(T),
      disc |-> disc,
      rnmiss |-> IF full /\ type = "rn" THEN RNMissing(T, C) ELSE {},
      nconf |-> Cardinality(conf),
      lalr1 |-> lalr,
      \* right-nulled extra reductions (n < |rhs|) are the allowance C04 itself makes
      \* for LALR_RN tables; conflict freedom is judged on the LALR(1) entries
      lalr_ok |-> (lalr => \A qt \in conf :
                      Cardinality({a \in TCell(T, qt[1], qt[2]) : a.k # "r" \/ a.n = RhsLen(T, a.p)}) <= 1),
      wf |-> WFDefects(T, C),
      absdiff |-> IF ~ConsistentG(T) THEN {<<"built_grammar_is_inconsistent">>}
                  ELSE IF "abs" \in DOMAIN d.meta THEN AbsDiff(T, d.meta.abs) ELSE {},
      \* a decorated text (EMPTY references, named / bool assignments) and the plain text of
      \* the same grammar: the same productions and, state by state, the same items with the
      \* same lookaheads, the same actions and the same gotos
      twindiff |-> IF "twin_grammar" \notin DOMAIN d THEN {}
                   ELSE IF "t2" \notin DOMAIN d THEN {<<"plain_text_rejected">>}
                   ELSE TwinDiff(T, d.t2),
      epsloop |-> Cardinality(EpsLoops(T)),
      \* binding of the OPERATIONAL construction model: Automaton.Build (FIFO work list,
      \* merge test, propagation) must reproduce the dumped automaton state by state
      \* (a difference is a DIVERGENCE, never a verdict)
      autodiff |-> IF full /\ NStates(T) <= 40 THEN DiffWithDump(C, type, Build(C, type, TRoots(T)), T) ELSE {}]
Init == i = 0
Next == /\ i < Len(Dumps)
        /\ i' = i + 1
        /\ PrintT(<<"VERDICT", ToJson(Verdict(Dumps[i + 1]))>>)
Spec == Init /\ [][Next]_i
=============================================================================
