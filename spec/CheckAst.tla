------------------------------- MODULE CheckAst ----------------------------
(* C10 (I -> S): results of generated parsers with the default builder.      *)
EXTENDS AstBuilder, TLC, Json, IOUtils
Recs == ndJsonDeserialize(IOEnv.RECS)
VARIABLE i
Verdict(r) ==
  [id |-> r.id, input |-> r.input,
   bad |-> IF r.res = "ok" THEN AstDefectsOpt(r.all, r.want, r.got, r.wnone, r.gnone)
           ELSE {<<"sentence_not_parsed", r.res>>}]
Init == i = 0
Next == /\ i < Len(Recs)
        /\ i' = i + 1
        /\ PrintT(<<"VERDICT", ToJson(Verdict(Recs[i + 1]))>>)
=============================================================================
