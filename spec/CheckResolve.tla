---------------------------- MODULE CheckResolve ---------------------------
(***************************************************************************)
(* C05 on dumped tables (I -> S): DUMPS holds, per grammar and settings, a *)
(* raw dump (all candidates) immediately followed by the resolved dump the *)
(* compiler really uses.  For every cell TLC compares what was kept with   *)
(* ResolveDoc.CellHolds.  Operator grammars (meta.prec) additionally carry *)
(* recorded LR parses in TRACES, compared with Prec.PrecTree.              *)
(***************************************************************************)
EXTENDS ResolveDoc, Prec, TLC, Json, IOUtils

Dumps == ndJsonDeserialize(IOEnv.DUMPS)
VARIABLE i

Verdict(j) ==
  LET res == Dumps[j]
      raw == Dumps[j - 1]
      ctx0 == [tassoc |-> "none", ps |-> res.cfg.ps, pse |-> res.cfg.pse, algo |-> res.cfg.algo]
      paired == j > 1 /\ raw.id = res.id /\ raw.cfg.raw /\ ~res.cfg.raw
                /\ NStates(raw.t) = NStates(res.t)
                /\ \A q \in TStates(res.t) : TCore(raw.t, q) = TCore(res.t, q)
      bad0 == IF paired THEN BadCells(raw.t, res.t, ctx0) ELSE {}
      bad == {<<b[1], b[2], b[3], b[4], res.t.terms[b[2] + 1].assoc>> : b \in bad0}
  IN [id |-> res.id, cfg |-> res.cfg, paired |-> paired, bad |-> bad,
      exercised |-> IF paired THEN Exercised(raw.t, res.t) ELSE 0,
      nconf |-> res.t.nconflicts]

Init == i = 0
Next == /\ i < Len(Dumps)
        /\ i' = i + 1
        /\ IF Dumps[i + 1].cfg.raw THEN TRUE
           ELSE PrintT(<<"VERDICT", ToJson(Verdict(i + 1))>>)
=============================================================================
