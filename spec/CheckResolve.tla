---------------------------- MODULE CheckResolve ---------------------------
(***************************************************************************)
(* C05 on dumped tables (I -> S): DUMPS holds, per grammar and settings, a *)
(* raw dump (all candidates) immediately followed by the resolved dump the *)
(* compiler really uses.  For every cell TLC compares what was kept with   *)
(* ResolveDoc.CellHolds.  Operator grammars (meta.prec) additionally carry *)
(* recorded LR parses in TRACES, compared with Prec.PrecTree.              *)
(***************************************************************************)
EXTENDS ResolveDoc, Prec, TLC, Json, IOUtils

Dumps == ndJsonDeserialize(IOEnv.DUMPS)
VARIABLE i

\* the meta-data the table generator resolved with against the meta-data that was WRITTEN
\* (d.meta.pm: per alternative the rule-level and the alternative's own pieces): a production
\* inherits each piece it does not give itself (Builder.Own)
Own(pm, rm) ==
  [prio  |-> IF pm.prio >= 0 THEN pm.prio ELSE IF rm.prio >= 0 THEN rm.prio ELSE 10,
   assoc |-> IF pm.assoc # "" THEN pm.assoc ELSE IF rm.assoc # "" THEN rm.assoc ELSE "none",
   nops  |-> pm.nops \/ rm.nops,
   nopse |-> pm.nopse \/ rm.nopse]
MetaDiff(T, pm) ==
  {<<"meta_data_not_as_written", pm[k][1], pm[k][2]>> :
     k \in {j \in 1 .. Len(pm) :
              LET S == {n \in 1 .. Len(T.nonterms) : T.nonterms[n].name = pm[j][1]}
              IN IF S = {} THEN TRUE
                 ELSE LET nt == T.nonterms[CHOOSE n \in S : TRUE]
                      IN IF Len(nt.prods) < pm[j][2] THEN TRUE
                         ELSE LET p == T.prods[nt.prods[pm[j][2]] + 1]
                                  w == Own(pm[j][4], pm[j][3])
                              IN ~(p.prio = w.prio /\ p.assoc = w.assoc /\ p.nops = w.nops /\ p.nopse = w.nopse)}}

Verdict(j) ==
  LET res == Dumps[j]
      raw == Dumps[j - 1]
      ctx0 == [tassoc |-> "none", ps |-> res.cfg.ps, pse |-> res.cfg.pse, algo |-> res.cfg.algo]
      paired == j > 1 /\ raw.id = res.id /\ raw.cfg.raw /\ ~res.cfg.raw
                /\ NStates(raw.t) = NStates(res.t)
                /\ \A q \in TStates(res.t) : TCore(raw.t, q) = TCore(res.t, q)
      bad0 == IF paired THEN BadCells(raw.t, res.t, ctx0) ELSE {}
      bad == {<<b[1], b[2], b[3], b[4], res.t.terms[b[2] + 1].assoc>> : b \in bad0}
             \cup (IF "pm" \in DOMAIN res.meta /\ ConsistentG(res.t) THEN MetaDiff(res.t, res.meta.pm) ELSE {})
  IN [id |-> res.id, cfg |-> res.cfg, paired |-> paired, bad |-> bad,
      exercised |-> IF paired THEN Exercised(raw.t, res.t) ELSE 0,
      nconf |-> res.t.nconflicts]

Init == i = 0
Next == /\ i < Len(Dumps)
        /\ i' = i + 1
        /\ IF Dumps[i + 1].cfg.raw THEN TRUE
           ELSE PrintT(<<"VERDICT", ToJson(Verdict(i + 1))>>)
=============================================================================
