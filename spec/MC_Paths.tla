------------------------------ MODULE MC_Paths ------------------------------
(* Design-level check of Paths: every combination of working directory,      *)
(* grammar path (bare, ./, ../, nested, absolute), root dir (unset, textual  *)
(* parent, another directory) and output root (unset, absolute, relative)    *)
(* gives a location or a diagnostic, and the documented placements hold.     *)
EXTENDS Paths, TLC
VARIABLES cwd, out, root, g
Names == {"d", "sub", "..", "."}
Dirs == {<<>>} \cup {<<a>> : a \in Names} \cup {<<a, b>> : a \in Names, b \in Names \ {"."}}
Cwds == {<<>>, <<"d">>, <<"d", "sub">>}
Init == /\ cwd \in Cwds
        /\ g \in {P(a, d \o <<"g.rustemo">>) : a \in BOOLEAN, d \in Dirs}
        /\ root \in {None} \cup {P(TRUE, d) : d \in {<<>>, <<"d">>, <<"other">>}} \cup {Parent(g)}
        /\ out \in {None, P(TRUE, <<"out">>), P(FALSE, <<"out">>)}
Next == UNCHANGED <<cwd, out, root, g>>
Total == Predict(cwd, out, root, g).outcome \in {"ok", "err"}
\* no output root: next to the grammar
InSource == out = None => Predict(cwd, out, root, g) = [outcome |-> "ok", at |-> At(cwd, Parent(g))]
\* plain rcomp (no root dir): directly into the output root
NoRoot == (out # None /\ root = None) => Predict(cwd, out, root, g) = [outcome |-> "ok", at |-> At(cwd, out)]
\* a grammar under the root dir keeps its relative place under the output root
Plain(c) == \A k \in 1 .. Len(c) : c[k] \notin {"..", "."}
UnderRoot ==
  (out # None /\ root # None /\ HasPrefix(Parent(g), root) /\ Plain(Parent(g).c))
     => LET r == Predict(cwd, out, root, g)
        IN r.outcome = "ok" /\ r.at = At(cwd, out) \o Strip(Parent(g), root).c
=============================================================================
