----------------------------- MODULE LRRuntime -----------------------------
(***************************************************************************)
(* OPERATIONAL: the loop of LRParser::parse_with_context                   *)
(* (rustemo/src/lr/parser.rs) as a state machine over a dumped table T.    *)
(*                                                                         *)
(* A configuration is a record                                             *)
(*   stack : sequence of [st, s, e]  LR state + span of the symbol         *)
(*   cs,ce : context span (span of the last shifted token)                 *)
(*   pos   : context position (end of the last shifted token)              *)
(*   status: "run" | "ok" | "err" | "abort"                                *)
(*   nred  : reductions since the last shift (bounded-progress counter)    *)
(* The lookahead token is supplied by the caller: in MC mode it is chosen  *)
(* nondeterministically (all inputs), in trace mode it is the next         *)
(* recorded token.  Every partial operation of the code is an explicit     *)
(* "abort" outcome: actions(..)[0] on an empty cell when the lexer returns *)
(* an unexpected kind, goto of None, popping more states than the stack    *)
(* holds.                                                                  *)
(***************************************************************************)
EXTENDS Table

InitCfg(st0, p0) ==
  [stack |-> <<[st |-> st0, s |-> p0, e |-> p0]>>, cs |-> p0, ce |-> p0, pos |-> p0,
   status |-> "run", nred |-> 0]

TopSt(cf) == cf.stack[Len(cf.stack)].st

\* parse_with_context: `self.definition.actions(state, next_token.kind)[0]`
FirstAction(T, cf, t) ==
  LET cell == TState(T, TopSt(cf)).actions[t + 1]
  IN IF Len(cell) = 0 THEN [k |-> "none", s |-> -1, p |-> -1, n |-> -1] ELSE cell[1]

\* The string lexer only returns tokens from expected_token_kinds(state); no
\* token => Err(error_expected) (or the synthetic STOP under partial parse).
LexerFinds(T, cf, t) == t \in TExpected(T, TopSt(cf))

\* Action::Shift
ShiftStep(T, cf, tok) ==
  LET a == FirstAction(T, cf, tok.t)
  IN [cf EXCEPT !.stack = Append(@, [st |-> a.s, s |-> tok.s, e |-> tok.e]),
                !.cs = tok.s, !.ce = tok.e, !.pos = tok.e, !.nred = 0]

\* pop_states + goto + push_state.  The span of an EMPTY reduction is the zero
\* width span at the end of the last shifted token (lr/parser.rs pop_states).
ReduceSpan(cf, n) ==
  IF n = 0 THEN [s |-> cf.ce, e |-> cf.ce]
  ELSE [s |-> cf.stack[Len(cf.stack) - n + 1].s, e |-> cf.stack[Len(cf.stack)].e]

ReduceStep(T, cf, p, n) ==
  IF n >= Len(cf.stack) THEN [cf EXCEPT !.status = "abort"]
  ELSE LET base == SubSeq(cf.stack, 1, Len(cf.stack) - n)
           g    == TGoto(T, base[Len(base)].st, Lhs(T, p))
           sp   == ReduceSpan(cf, n)
       IN IF g < 0 THEN [cf EXCEPT !.status = "abort"]
          ELSE [cf EXCEPT !.stack = Append(base, [st |-> g, s |-> sp.s, e |-> sp.e]),
                          !.nred = @ + 1]

\* next_token with a Layout rule: the nested layout parser runs on the SAME context,
\* so after it consumed layout up to position p the context span is the span of the
\* last layout token (which ends at p).  Only the end matters (EMPTY reductions).
LayoutParsed(cf, p) == [cf EXCEPT !.cs = p, !.ce = p]

\* One step of the main loop with lookahead token tok = [t, s, e].
Step(T, cf, tok) ==
  LET a == FirstAction(T, cf, tok.t)
  IN CASE a.k = "s" -> ShiftStep(T, cf, tok)
       [] a.k = "r" -> ReduceStep(T, cf, a.p, a.n)
       [] a.k = "a" -> [cf EXCEPT !.status = "ok"]
       [] OTHER     -> [cf EXCEPT !.status = "abort"]      \* actions(..)[0] on empty cell

\* next_token + Step for the default string lexer on a lexically unambiguous
\* terminal set: the lexer finds tok iff it is expected in the current state.
LexStep(T, cf, tok) ==
  IF LexerFinds(T, cf, tok.t) THEN Step(T, cf, tok) ELSE [cf EXCEPT !.status = "err"]
=============================================================================
